package main

// Zero-annotation frame sweep (part of the C09 check): for EVERY function of /repo/lib - not only those under contract -
// the instructions are scanned for effects that would make a decision depend on, or leave behind, process-wide state:
//   - a store whose address is rooted in a package-level variable (outside package initialisation),
//   - reading the wall clock or the process-wide random source, environment or files,
//   - goroutines, channels, select, sync primitives.
// This is a syntactic over-approximation over go/ssa (no solver): an obligation "sweep.<kind>" per function is recorded
// as discharged when nothing is found and reported as a violation otherwise.  It does not replace the contracts; it
// closes the gap "functions without a contract might write shared state" of the frame argument for C09.

import (
	"fmt"
	"go/types"
	"sort"
	"strings"

	"golang.org/x/tools/go/ssa"
)

type sweepFinding struct {
	Func string
	Kind string
	What string
	Pos  string
}

// perRequestReceivers: receiver types whose objects are created per request (decoded parameters, scratch state); a method may
// update them.  Every other pointer receiver in the library is a long-lived registered object (bias, listener, function object,
// preference function) shared by all requests.
var perRequestReceivers = map[string]bool{
	"IdealCoefficientSatisfactionLevels": true, "ThresholdSatisfactionLevels": true, "additionalCriterionAnchoringState": true,
	"AlternativesRanking": true, "AlternativeResults": true, "criteriaWeights": true, "WeightedCriteria": true, "Criteria": true,
	"DecisionMaker": true, "Weights": true, "byValue": true,
}

func rootReceiver(v ssa.Value, fn *ssa.Function, depth int) bool {
	if depth > 8 || fn.Signature.Recv() == nil || len(fn.Params) == 0 {
		return false
	}
	switch v := v.(type) {
	case *ssa.Parameter:
		return v == fn.Params[0]
	case *ssa.FieldAddr:
		return rootReceiver(v.X, fn, depth+1)
	case *ssa.IndexAddr:
		return rootReceiver(v.X, fn, depth+1)
	case *ssa.UnOp:
		// *t0 where t0 is the spill slot of the receiver (naive form)
		if a, ok := v.X.(*ssa.Alloc); ok && v.Op.String() == "*" {
			for _, r := range *a.Referrers() {
				if st, ok := r.(*ssa.Store); ok && st.Addr == a {
					if p, ok := st.Val.(*ssa.Parameter); ok && p == fn.Params[0] {
						return true
					}
				}
			}
		}
	}
	return false
}

func rootGlobal(v ssa.Value, depth int) *ssa.Global {
	if depth > 8 {
		return nil
	}
	switch v := v.(type) {
	case *ssa.Global:
		return v
	case *ssa.FieldAddr:
		return rootGlobal(v.X, depth+1)
	case *ssa.IndexAddr:
		return rootGlobal(v.X, depth+1)
	case *ssa.UnOp:
		return nil // a loaded value is no longer the variable itself
	}
	return nil
}

var forbiddenCalls = map[string]string{
	"time.Now": "reads the wall clock", "time.Since": "reads the wall clock", "time.Until": "reads the wall clock",
	"math/rand.Float64": "process-wide random source", "math/rand.Int": "process-wide random source", "math/rand.Intn": "process-wide random source",
	"math/rand.Int63": "process-wide random source", "math/rand.Perm": "process-wide random source", "math/rand.Shuffle": "process-wide random source",
	"math/rand.Seed": "process-wide random source", "math/rand.Int31n": "process-wide random source", "math/rand.Int63n": "process-wide random source",
	"os.Getenv": "reads the environment", "os.ReadFile": "reads a file", "os.Open": "reads a file", "os.Exit": "terminates the process",
}

// sweepWorld scans all functions of the library packages.
func (w *World) sweep() (scanned int, findings []sweepFinding) {
	var fns []*ssa.Function
	for _, fn := range w.fns {
		if fn.Pkg == nil || fn.Blocks == nil || !strings.Contains(fn.Pkg.Pkg.Path(), "RealDecisionMaker/lib") {
			continue
		}
		if strings.HasSuffix(fn.Pkg.Pkg.Path(), "/testUtils") {
			continue
		}
		if f := w.prog.Fset.Position(fn.Pos()).Filename; strings.HasSuffix(f, "_test.go") {
			continue
		}
		fns = append(fns, fn)
	}
	// anonymous functions
	seen := map[*ssa.Function]bool{}
	var all []*ssa.Function
	var add func(fn *ssa.Function)
	add = func(fn *ssa.Function) {
		if seen[fn] {
			return
		}
		seen[fn] = true
		all = append(all, fn)
		for _, a := range fn.AnonFuncs {
			add(a)
		}
	}
	for _, fn := range fns {
		add(fn)
	}
	sort.Slice(all, func(i, j int) bool { return all[i].String() < all[j].String() })
	for _, fn := range all {
		scanned++
		isInit := fn.Name() == "init" || strings.HasPrefix(fn.Name(), "init#")
		for _, b := range fn.Blocks {
			for _, ins := range b.Instrs {
				pos := w.prog.Fset.Position(ins.Pos()).String()
				switch ins := ins.(type) {
				case *ssa.Store:
					if g := rootGlobal(ins.Addr, 0); g != nil && !isInit {
						findings = append(findings, sweepFinding{shortFuncName(fn), "global_write", "stores to package-level variable " + g.Name(), pos})
					}
					if fa, isField := ins.Addr.(*ssa.FieldAddr); isField && rootReceiver(fa.X, fn, 0) {
						rt := fn.Signature.Recv().Type()
						if pt, ok := types.Unalias(rt).(*types.Pointer); ok {
							if n, ok := types.Unalias(pt.Elem()).(*types.Named); ok && !perRequestReceivers[n.Obj().Name()] {
								findings = append(findings, sweepFinding{shortFuncName(fn), "shared_object_write", "stores to a field of its long-lived receiver " + n.Obj().Name(), pos})
							}
						}
					}
				case *ssa.MapUpdate:
					if u, ok := ins.Map.(*ssa.UnOp); ok {
						if g, ok := u.X.(*ssa.Global); ok && !isInit {
							findings = append(findings, sweepFinding{shortFuncName(fn), "global_write", "updates package-level map " + g.Name(), pos})
						}
					}
				case *ssa.Go:
					findings = append(findings, sweepFinding{shortFuncName(fn), "concurrency", "starts a goroutine", pos})
				case *ssa.Send:
					findings = append(findings, sweepFinding{shortFuncName(fn), "concurrency", "channel send", pos})
				case *ssa.Select:
					findings = append(findings, sweepFinding{shortFuncName(fn), "concurrency", "select", pos})
				case *ssa.MakeChan:
					findings = append(findings, sweepFinding{shortFuncName(fn), "concurrency", "makes a channel", pos})
				case *ssa.UnOp:
					if _, isChan := types.Unalias(ins.X.Type()).Underlying().(*types.Chan); isChan {
						findings = append(findings, sweepFinding{shortFuncName(fn), "concurrency", "channel receive", pos})
					}
				case ssa.CallInstruction:
					if callee := ins.Common().StaticCallee(); callee != nil {
						name := callee.String()
						if why, bad := forbiddenCalls[name]; bad {
							findings = append(findings, sweepFinding{shortFuncName(fn), "ambient_state", "calls " + name + ": " + why, pos})
						}
						if strings.HasPrefix(name, "(*sync.") || strings.HasPrefix(name, "sync/atomic.") {
							findings = append(findings, sweepFinding{shortFuncName(fn), "concurrency", "uses " + name, pos})
						}
					}
				}
			}
		}
	}
	return scanned, findings
}

func cmdSweep() {
	w, err := loadWorld()
	if err != nil {
		fmt.Println("engine error:", err)
		return
	}
	n, fs := w.sweep()
	for _, f := range fs {
		fmt.Printf("%s %s: %s (%s)\n", f.Kind, f.Func, f.What, f.Pos)
	}
	fmt.Printf("sweep: %d functions scanned, %d findings\n", n, len(fs))
}
