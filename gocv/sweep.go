package main

// Zero-annotation frame sweep (part of the C09 check): for EVERY function of /repo/lib - not only those under contract -
// the instructions are scanned for effects that would make a decision depend on, or leave behind, process-wide state:
//   - a store whose address is rooted in a package-level variable (outside package initialisation),
//   - reading the wall clock or the process-wide random source, environment or files,
//   - goroutines, channels, select, sync primitives.
// This is a syntactic over-approximation over go/ssa (no solver): an obligation "sweep.<kind>" per function is recorded
// as discharged when nothing is found and reported as a violation otherwise.  It does not replace the contracts; it
// closes the gap "functions without a contract might write shared state" of the frame argument for C09.

import (
	"fmt"
	"go/types"
	"reflect"
	"sort"
	"strings"

	"golang.org/x/tools/go/ssa"
)

type sweepFinding struct {
	Func string
	Kind string
	What string
	Pos  string
}

// perRequestReceivers: receiver types whose objects are created per request (decoded parameters, scratch state); a method may
// update them.  Every other pointer receiver in the library is a long-lived registered object (bias, listener, function object,
// preference function) shared by all requests.
var perRequestReceivers = map[string]bool{
	"IdealCoefficientSatisfactionLevels": true, "ThresholdSatisfactionLevels": true, "additionalCriterionAnchoringState": true,
	"AlternativesRanking": true, "AlternativeResults": true, "criteriaWeights": true, "WeightedCriteria": true, "Criteria": true,
	"DecisionMaker": true, "Weights": true, "byValue": true,
}

func rootReceiver(v ssa.Value, fn *ssa.Function, depth int) bool {
	if depth > 8 || fn.Signature.Recv() == nil || len(fn.Params) == 0 {
		return false
	}
	switch v := v.(type) {
	case *ssa.Parameter:
		return v == fn.Params[0]
	case *ssa.FieldAddr:
		return rootReceiver(v.X, fn, depth+1)
	case *ssa.IndexAddr:
		return rootReceiver(v.X, fn, depth+1)
	case *ssa.UnOp:
		// *t0 where t0 is the spill slot of the receiver (naive form)
		if a, ok := v.X.(*ssa.Alloc); ok && v.Op.String() == "*" {
			for _, r := range *a.Referrers() {
				if st, ok := r.(*ssa.Store); ok && st.Addr == a {
					if p, ok := st.Val.(*ssa.Parameter); ok && p == fn.Params[0] {
						return true
					}
				}
			}
		}
	}
	return false
}

func rootGlobal(v ssa.Value, depth int) *ssa.Global {
	if depth > 10 {
		return nil
	}
	switch v := v.(type) {
	case *ssa.Global:
		return v
	case *ssa.FieldAddr:
		return rootGlobal(v.X, depth+1)
	case *ssa.IndexAddr:
		return rootGlobal(v.X, depth+1)
	case *ssa.Slice:
		return rootGlobal(v.X, depth+1)
	case *ssa.ChangeType:
		return rootGlobal(v.X, depth+1)
	case *ssa.MakeInterface:
		return rootGlobal(v.X, depth+1)
	case *ssa.Phi:
		for _, e := range v.Edges {
			if g := rootGlobal(e, depth+1); g != nil {
				return g
			}
		}
	case *ssa.UnOp:
		if v.Op.String() != "*" {
			return nil
		}
		// the pointer, slice or map kept in a package-level variable still leads to shared memory
		if g, ok := v.X.(*ssa.Global); ok {
			switch types.Unalias(v.Type()).Underlying().(type) {
			case *types.Pointer, *types.Slice, *types.Map:
				return g
			}
			return nil
		}
		// a local variable (spill slot in naive form) that was assigned such an address
		if a, ok := v.X.(*ssa.Alloc); ok && a.Referrers() != nil {
			for _, r := range *a.Referrers() {
				if st, ok := r.(*ssa.Store); ok && st.Addr == a {
					if g := rootGlobal(st.Val, depth+1); g != nil {
						return g
					}
				}
			}
		}
	}
	return nil
}

// rootParam: the index of the parameter whose pointee (or backing array, or map) the address v lies in, or -1.
func rootParam(v ssa.Value, fn *ssa.Function, depth int) int {
	if depth > 10 {
		return -1
	}
	switch v := v.(type) {
	case *ssa.Parameter:
		for i, p := range fn.Params {
			if p == v {
				switch types.Unalias(v.Type()).Underlying().(type) {
				case *types.Pointer, *types.Slice, *types.Map, *types.Interface:
					return i
				}
			}
		}
	case *ssa.FieldAddr:
		return rootParam(v.X, fn, depth+1)
	case *ssa.IndexAddr:
		return rootParam(v.X, fn, depth+1)
	case *ssa.Slice:
		return rootParam(v.X, fn, depth+1)
	case *ssa.ChangeType:
		return rootParam(v.X, fn, depth+1)
	case *ssa.MakeInterface:
		return rootParam(v.X, fn, depth+1)
	case *ssa.UnOp:
		if v.Op.String() != "*" {
			return -1
		}
		if a, ok := v.X.(*ssa.Alloc); ok && a.Referrers() != nil {
			for _, r := range *a.Referrers() {
				if st, ok := r.(*ssa.Store); ok && st.Addr == a {
					if i := rootParam(st.Val, fn, depth+1); i >= 0 {
						return i
					}
				}
			}
		}
	}
	return -1
}

// externalWriters: functions outside the library that write through the given argument positions.
var externalWriters = map[string][]int{
	"encoding/json.Unmarshal": {1}, "github.com/mitchellh/mapstructure.Decode": {1}, "github.com/mitchellh/mapstructure.WeakDecode": {1},
	"sort.Float64s": {0}, "sort.Ints": {0}, "sort.Strings": {0}, "sort.Slice": {0}, "sort.SliceStable": {0}, "sort.Sort": {0}, "sort.Stable": {0},
	"math/rand.Shuffle": {},
}

// writerSummaries: per library function, the parameter positions it writes through (directly, or by handing them to a writer); fixpoint.
func writerSummaries(all []*ssa.Function) map[*ssa.Function]map[int]bool {
	sum := map[*ssa.Function]map[int]bool{}
	mark := func(fn *ssa.Function, i int) bool {
		if i < 0 {
			return false
		}
		if sum[fn] == nil {
			sum[fn] = map[int]bool{}
		}
		if sum[fn][i] {
			return false
		}
		sum[fn][i] = true
		return true
	}
	for changed := true; changed; {
		changed = false
		for _, fn := range all {
			for _, b := range fn.Blocks {
				for _, ins := range b.Instrs {
					switch ins := ins.(type) {
					case *ssa.Store:
						if _, isSlot := ins.Addr.(*ssa.Alloc); !isSlot && mark(fn, rootParam(ins.Addr, fn, 0)) {
							changed = true
						}
					case *ssa.MapUpdate:
						if mark(fn, rootParam(ins.Map, fn, 0)) {
							changed = true
						}
					case ssa.CallInstruction:
						c := ins.Common()
						callee := c.StaticCallee()
						if callee == nil {
							continue
						}
						var pos []int
						if ws, ok := externalWriters[callee.String()]; ok {
							pos = ws
						} else {
							for i := range sum[callee] {
								pos = append(pos, i)
							}
						}
						for _, i := range pos {
							if i < len(c.Args) && mark(fn, rootParam(c.Args[i], fn, 0)) {
								changed = true
							}
						}
					}
				}
			}
		}
	}
	return sum
}

// modelledWrappers: library functions whose calls are replaced by an assumed model (externals.go), and the one external call
// their body has to consist of for the model to describe them.
var modelledWrappers = map[string]string{
	"github.com/Azbesciak/RealDecisionMaker/lib/utils.DecodeToStruct": "github.com/mitchellh/mapstructure.Decode",
}

// paramBehind: the parameter a value is (directly, or loaded from its spill slot in naive form), or nil.
func paramBehind(v ssa.Value) *ssa.Parameter {
	switch v := v.(type) {
	case *ssa.Parameter:
		return v
	case *ssa.UnOp:
		if a, ok := v.X.(*ssa.Alloc); ok && v.Op.String() == "*" && a.Referrers() != nil {
			for _, r := range *a.Referrers() {
				if st, ok := r.(*ssa.Store); ok && st.Addr == a {
					if p, ok := st.Val.(*ssa.Parameter); ok {
						return p
					}
				}
			}
		}
	}
	return nil
}

var forbiddenCalls = map[string]string{
	"time.Now": "reads the wall clock", "time.Since": "reads the wall clock", "time.Until": "reads the wall clock",
	"math/rand.Float64": "process-wide random source", "math/rand.Int": "process-wide random source", "math/rand.Intn": "process-wide random source",
	"math/rand.Int63": "process-wide random source", "math/rand.Perm": "process-wide random source", "math/rand.Shuffle": "process-wide random source",
	"math/rand.Seed": "process-wide random source", "math/rand.Int31n": "process-wide random source", "math/rand.Int63n": "process-wide random source",
	"os.Getenv": "reads the environment", "os.ReadFile": "reads a file", "os.Open": "reads a file", "os.Exit": "terminates the process",
}

// sweepWorld scans all functions of the library packages.
func (w *World) sweep() (scanned int, findings []sweepFinding) {
	var fns []*ssa.Function
	for _, fn := range w.fns {
		if fn.Pkg == nil || fn.Blocks == nil || !strings.Contains(fn.Pkg.Pkg.Path(), "RealDecisionMaker/lib") {
			continue
		}
		if strings.HasSuffix(fn.Pkg.Pkg.Path(), "/testUtils") {
			continue
		}
		if f := w.prog.Fset.Position(fn.Pos()).Filename; strings.HasSuffix(f, "_test.go") {
			continue
		}
		fns = append(fns, fn)
	}
	// anonymous functions
	seen := map[*ssa.Function]bool{}
	var all []*ssa.Function
	var add func(fn *ssa.Function)
	add = func(fn *ssa.Function) {
		if seen[fn] {
			return
		}
		seen[fn] = true
		all = append(all, fn)
		for _, a := range fn.AnonFuncs {
			add(a)
		}
	}
	for _, fn := range fns {
		add(fn)
	}
	sort.Slice(all, func(i, j int) bool { return all[i].String() < all[j].String() })
	writers := writerSummaries(all)
	for _, fn := range all {
		scanned++
		isInit := fn.Name() == "init" || strings.HasPrefix(fn.Name(), "init#")
		// a library function that the generator replaces by an assumed model must still be the thin wrapper the model describes
		if want, modelled := modelledWrappers[funcKey(fn)]; modelled {
			var got []string
			okArgs := true
			for _, b := range fn.Blocks {
				for _, ins := range b.Instrs {
					if c, ok := ins.(ssa.CallInstruction); ok {
						if callee := c.Common().StaticCallee(); callee != nil {
							got = append(got, callee.String())
							if callee.String() == want {
								for i, a := range c.Common().Args {
									if i < len(fn.Params) && paramBehind(a) != fn.Params[i] {
										okArgs = false
									}
								}
							}
						} else if _, isBuiltin := c.Common().Value.(*ssa.Builtin); !isBuiltin {
							got = append(got, "<dynamic call>")
						}
					}
				}
			}
			if len(got) != 1 || got[0] != want || !okArgs {
				findings = append(findings, sweepFinding{shortFuncName(fn), "modelled_wrapper", fmt.Sprintf("is replaced by an assumed model of the single call %s(its parameters in order); its body now calls %v", want, got), w.prog.Fset.Position(fn.Pos()).String()})
			}
		}
		for _, b := range fn.Blocks {
			for _, ins := range b.Instrs {
				pos := w.prog.Fset.Position(ins.Pos()).String()
				if !ins.Pos().IsValid() {
					pos = w.prog.Fset.Position(fn.Pos()).String()
				}
				switch ins := ins.(type) {
				case *ssa.Store:
					if g := rootGlobal(ins.Addr, 0); g != nil && !isInit {
						findings = append(findings, sweepFinding{shortFuncName(fn), "global_write", "stores to package-level variable " + g.Name(), pos})
					}
					if fa, isField := ins.Addr.(*ssa.FieldAddr); isField && rootReceiver(fa.X, fn, 0) {
						rt := fn.Signature.Recv().Type()
						if pt, ok := types.Unalias(rt).(*types.Pointer); ok {
							if n, ok := types.Unalias(pt.Elem()).(*types.Named); ok && !perRequestReceivers[n.Obj().Name()] {
								findings = append(findings, sweepFinding{shortFuncName(fn), "shared_object_write", "stores to a field of its long-lived receiver " + n.Obj().Name(), pos})
							}
						}
					}
				case *ssa.MapUpdate:
					if u, ok := ins.Map.(*ssa.UnOp); ok {
						if g, ok := u.X.(*ssa.Global); ok && !isInit {
							findings = append(findings, sweepFinding{shortFuncName(fn), "global_write", "updates package-level map " + g.Name(), pos})
						}
					}
				case *ssa.MakeInterface:
					// fmt calls String()/Error() of what it is given: a String()/Error() method that hands its own receiver to a
					// formatting call recurses until the stack overflows (a fatal error recover() cannot catch)
					if n := fn.Name(); (n == "String" || n == "Error" || n == "GoString") && fn.Signature.Recv() != nil && len(fn.Params) > 0 {
						self := false
						switch v := ins.X.(type) {
						case *ssa.Parameter:
							self = v == fn.Params[0]
						case *ssa.UnOp:
							if a, ok := v.X.(*ssa.Alloc); ok && v.Op.String() == "*" && a.Referrers() != nil {
								for _, r := range *a.Referrers() {
									if st, ok := r.(*ssa.Store); ok && st.Addr == a && st.Val == fn.Params[0] {
										self = true
									}
								}
							}
						}
						if self {
							findings = append(findings, sweepFinding{shortFuncName(fn), "endless_recursion", "hands its own receiver to a formatting call, which calls " + n + "() again", pos})
						}
					}
				case *ssa.Go:
					findings = append(findings, sweepFinding{shortFuncName(fn), "concurrency", "starts a goroutine", pos})
				case *ssa.Send:
					findings = append(findings, sweepFinding{shortFuncName(fn), "concurrency", "channel send", pos})
				case *ssa.Select:
					findings = append(findings, sweepFinding{shortFuncName(fn), "concurrency", "select", pos})
				case *ssa.MakeChan:
					findings = append(findings, sweepFinding{shortFuncName(fn), "concurrency", "makes a channel", pos})
				case *ssa.UnOp:
					if _, isChan := types.Unalias(ins.X.Type()).Underlying().(*types.Chan); isChan {
						findings = append(findings, sweepFinding{shortFuncName(fn), "concurrency", "channel receive", pos})
					}
				case ssa.CallInstruction:
					if callee := ins.Common().StaticCallee(); callee != nil {
						name := callee.String()
						var wpos []int
						if ws, ok := externalWriters[name]; ok {
							wpos = ws
						} else {
							for i := range writers[callee] {
								wpos = append(wpos, i)
							}
							sort.Ints(wpos)
						}
						for _, i := range wpos {
							if i >= len(ins.Common().Args) || isInit {
								continue
							}
							arg := ins.Common().Args[i]
							if g := rootGlobal(arg, 0); g != nil {
								findings = append(findings, sweepFinding{shortFuncName(fn), "global_write", "hands package-level variable " + g.Name() + " to " + shortFuncName(callee) + ", which writes through it", pos})
							}
							if rootReceiver(arg, fn, 0) {
								if _, isParam := arg.(*ssa.Parameter); !isParam {
									if pt, ok := types.Unalias(fn.Signature.Recv().Type()).(*types.Pointer); ok {
										if n, ok := types.Unalias(pt.Elem()).(*types.Named); ok && !perRequestReceivers[n.Obj().Name()] {
											findings = append(findings, sweepFinding{shortFuncName(fn), "shared_object_write", "hands a field of its long-lived receiver " + n.Obj().Name() + " to " + shortFuncName(callee) + ", which writes through it", pos})
										}
									}
								}
							}
						}
						if why, bad := forbiddenCalls[name]; bad {
							findings = append(findings, sweepFinding{shortFuncName(fn), "ambient_state", "calls " + name + ": " + why, pos})
						}
						if strings.HasPrefix(name, "(*sync.") || strings.HasPrefix(name, "sync/atomic.") {
							findings = append(findings, sweepFinding{shortFuncName(fn), "concurrency", "uses " + name, pos})
						}
					}
				}
			}
		}
	}
	return scanned, findings
}

// wireObligations: one obligation per field of every "wire" spec tagged with prop: the struct tag gives exactly that JSON name
// (with exactly those options).  Decided by comparing struct tags - encoding/json is not part of the verified code.
func (w *World) wireObligations(prop string) []*Obligation {
	var out []*Obligation
	for _, ws := range w.db.Wires {
		if prop != "" && !hasProp(ws.Props, prop) {
			continue
		}
		var st *types.Struct
		for _, p := range w.prog.AllPackages() {
			if p.Pkg.Path() != ws.Pkg {
				continue
			}
			if tn, ok := p.Pkg.Scope().Lookup(ws.Type).(*types.TypeName); ok {
				st, _ = tn.Type().Underlying().(*types.Struct)
			}
		}
		short := shortKey(ws.Pkg) + "." + ws.Type
		for _, f := range ws.Fields {
			name := short + "#wire." + f[0]
			got, found := "", false
			if st != nil {
				for i := 0; i < st.NumFields(); i++ {
					if st.Field(i).Name() == f[0] {
						found = true
						got = reflectTagGet(st.Tag(i), "json")
					}
				}
			}
			ob := &Obligation{Name: name, Func: short, Kind: "wire", Props: []string{prop}, Src: ws.Src, Solver: "syntactic"}
			if found && got == f[1] {
				ob.Goal, ob.Result = TTrue, "unsat"
			} else {
				ob.Goal, ob.Result = TFalse, "sat"
				ob.Model = fmt.Sprintf("field %s of %s: json tag is %q, the wire format requires %q", f[0], short, got, f[1])
				if !found {
					ob.Model = fmt.Sprintf("type %s has no field %s (wire format requires json %q)", short, f[0], f[1])
				}
			}
			out = append(out, ob)
		}
		// the Go type of a serialised field (float64 vs float32, int64 vs int32, ...) decides what a client can send and read
		for _, f := range ws.Types {
			name := short + "#wire.type." + f[0]
			got, found := "", false
			if st != nil {
				for i := 0; i < st.NumFields(); i++ {
					if st.Field(i).Name() == f[0] {
						found = true
						got = strings.ReplaceAll(types.TypeString(st.Field(i).Type(), func(p *types.Package) string {
							if p.Path() == ws.Pkg {
								return ""
							}
							return p.Name()
						}), " ", "")
					}
				}
			}
			ob := &Obligation{Name: name, Func: short, Kind: "wire", Props: []string{prop}, Src: ws.Src, Solver: "syntactic"}
			if found && got == f[1] {
				ob.Goal, ob.Result = TTrue, "unsat"
			} else {
				ob.Goal, ob.Result = TFalse, "sat"
				ob.Model = fmt.Sprintf("field %s of %s has Go type %s, the wire format requires %s", f[0], short, got, f[1])
			}
			out = append(out, ob)
		}
	}
	return out
}

func reflectTagGet(tag, key string) string {
	return reflect.StructTag(tag).Get(key)
}

func cmdSweep() {
	w, err := loadWorld()
	if err != nil {
		fmt.Println("engine error:", err)
		return
	}
	n, fs := w.sweep()
	for _, f := range fs {
		fmt.Printf("%s %s: %s (%s)\n", f.Kind, f.Func, f.What, f.Pos)
	}
	fmt.Printf("sweep: %d functions scanned, %d findings\n", n, len(fs))
}


// cmdCalls prints the static call edges between library functions ("caller<TAB>callee", keys as in the contract files:
// package directory, then the function name).  Closures belong to their parents' cone (edge parent -> closure); a function
// used as a value counts as called.  Interface dispatch is not followed.  Used by tools/tagaudit.py --cone.
func cmdCalls() {
	w, err := loadWorld()
	if err != nil {
		fmt.Println("engine error:", err)
		return
	}
	const pre = "github.com/Azbesciak/RealDecisionMaker/lib/"
	inLib := func(fn *ssa.Function) bool {
		k := funcKey(fn)
		return strings.HasPrefix(k, pre) && fn.Blocks != nil
	}
	seen := map[string]bool{}
	var keys []string
	for k := range w.fns {
		keys = append(keys, k)
	}
	sort.Strings(keys)
	var visit func(fn *ssa.Function)
	done := map[*ssa.Function]bool{}
	visit = func(fn *ssa.Function) {
		if done[fn] || !inLib(fn) {
			return
		}
		done[fn] = true
		from := strings.TrimPrefix(funcKey(fn), pre)
		edge := func(to *ssa.Function) {
			if to == nil || !inLib(to) {
				return
			}
			l := from + "\t" + strings.TrimPrefix(funcKey(to), pre)
			if !seen[l] {
				seen[l] = true
				fmt.Println(l)
			}
			visit(to)
		}
		for _, a := range fn.AnonFuncs {
			edge(a)
		}
		for _, b := range fn.Blocks {
			for _, ins := range b.Instrs {
				if c, ok := ins.(ssa.CallInstruction); ok {
					edge(c.Common().StaticCallee())
					if cc := c.Common(); cc.IsInvoke() {
						// interface dispatch: every library type that implements the interface (third column "dyn")
						if it, ok := types.Unalias(cc.Value.Type()).Underlying().(*types.Interface); ok {
							for _, impl := range implementations(w, it, cc.Method) {
								if inLib(impl) {
									l := from + "\t" + strings.TrimPrefix(funcKey(impl), pre) + "\tdyn"
									if !seen[l] {
										seen[l] = true
										fmt.Println(l)
									}
									visit(impl)
								}
							}
						}
					}
				}
				for _, op := range ins.Operands(nil) {
					if op == nil || *op == nil {
						continue
					}
					if f, ok := (*op).(*ssa.Function); ok {
						edge(f)
					}
				}
			}
		}
	}
	for _, k := range keys {
		visit(w.fns[k])
	}
}

// implementations: the methods of library types (T or *T) through which a call of m on interface it may be dispatched.
func implementations(w *World, it *types.Interface, m *types.Func) []*ssa.Function {
	var out []*ssa.Function
	for _, p := range w.prog.AllPackages() {
		if !strings.HasPrefix(p.Pkg.Path(), "github.com/Azbesciak/RealDecisionMaker/lib") {
			continue
		}
		for _, mem := range p.Members {
			tm, ok := mem.(*ssa.Type)
			if !ok {
				continue
			}
			named := tm.Type()
			if _, isIface := named.Underlying().(*types.Interface); isIface {
				continue
			}
			for _, t := range []types.Type{named, types.NewPointer(named)} {
				if types.Implements(t, it) {
					if fn := w.prog.LookupMethod(t, m.Pkg(), m.Name()); fn != nil {
						out = append(out, fn)
					}
					break
				}
			}
		}
	}
	return out
}

// cmdWire lists every wire obligation that does not hold on the current tree (a development aid: the pins are written from
// the engine's own rendering of the field types).
func cmdWire() {
	w, err := loadWorld()
	if err != nil {
		fmt.Println("engine error:", err)
		return
	}
	n := 0
	for _, o := range w.wireObligations("") {
		n++
		if o.Result != "unsat" {
			fmt.Printf("%s\t%s\t%s\n", o.Name, o.Src, o.Model)
		}
	}
	fmt.Printf("%d wire obligations\n", n)
}
