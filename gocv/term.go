package main

// SMT term layer: sorts, terms, printing, light simplification.

import (
	"fmt"
	"math/big"
	"sort"
	"strings"
)

type Sort string

const (
	SInt   Sort = "Int"
	SReal  Sort = "Real"
	SBool  Sort = "Bool"
	SStr   Sort = "Str"
	SIface Sort = "Iface"
	SSlice Sort = "Slice"
)

func ArraySort(k, v Sort) Sort { return Sort("(Array " + string(k) + " " + string(v) + ")") }

func (s Sort) IsArray() bool { return strings.HasPrefix(string(s), "(Array ") }

// ArrayParts splits "(Array K V)" into K and V.
func (s Sort) ArrayParts() (Sort, Sort) {
	str := string(s)
	str = str[len("(Array ") : len(str)-1]
	depth := 0
	for i, c := range str {
		switch c {
		case '(':
			depth++
		case ')':
			depth--
		case ' ':
			if depth == 0 {
				return Sort(str[:i]), Sort(str[i+1:])
			}
		}
	}
	panic("bad array sort " + string(s))
}

type Term struct {
	Op   string // operator / symbol name; for literals the literal text
	Args []*Term
	Sort Sort
	Kind termKind
	// for quantifiers
	Bound []*Term // bound variables (Kind==kVar)
	Pats  [][]*Term
	str   string
}

type termKind int

const (
	kApp termKind = iota // application of a builtin or declared function (Args may be empty: constant)
	kLit                 // literal (numeral, true/false)
	kVar                 // declared constant / bound variable
	kQuant               // forall/exists; Op is "forall" or "exists"; Args[0] body
	kLet
)

func (t *Term) String() string {
	if t.str != "" {
		return t.str
	}
	var s string
	switch t.Kind {
	case kLit, kVar:
		s = t.Op
	case kQuant:
		var b strings.Builder
		b.WriteString("(" + t.Op + " (")
		for i, v := range t.Bound {
			if i > 0 {
				b.WriteString(" ")
			}
			b.WriteString("(" + v.Op + " " + string(v.Sort) + ")")
		}
		b.WriteString(") ")
		if len(t.Pats) > 0 {
			b.WriteString("(! " + t.Args[0].String())
			for _, p := range t.Pats {
				b.WriteString(" :pattern (")
				for i, pt := range p {
					if i > 0 {
						b.WriteString(" ")
					}
					b.WriteString(pt.String())
				}
				b.WriteString(")")
			}
			b.WriteString(")")
		} else {
			b.WriteString(t.Args[0].String())
		}
		b.WriteString(")")
		s = b.String()
	default:
		if len(t.Args) == 0 {
			s = t.Op
		} else {
			var b strings.Builder
			b.WriteString("(" + t.Op)
			for _, a := range t.Args {
				b.WriteString(" ")
				b.WriteString(a.String())
			}
			b.WriteString(")")
			s = b.String()
		}
	}
	t.str = s
	return s
}

var (
	TTrue  = &Term{Op: "true", Sort: SBool, Kind: kLit}
	TFalse = &Term{Op: "false", Sort: SBool, Kind: kLit}
)

func IntLit(n int64) *Term {
	if n < 0 {
		return &Term{Op: fmt.Sprintf("(- %d)", -n), Sort: SInt, Kind: kLit}
	}
	return &Term{Op: fmt.Sprintf("%d", n), Sort: SInt, Kind: kLit}
}

func BigIntLit(n *big.Int) *Term {
	if n.Sign() < 0 {
		return &Term{Op: "(- " + new(big.Int).Neg(n).String() + ")", Sort: SInt, Kind: kLit}
	}
	return &Term{Op: n.String(), Sort: SInt, Kind: kLit}
}

// RealLitRat prints an exact rational.
func RealLitRat(r *big.Rat) *Term {
	neg := r.Sign() < 0
	a := new(big.Rat).Abs(r)
	var s string
	if a.IsInt() {
		s = a.Num().String() + ".0"
	} else {
		s = "(/ " + a.Num().String() + ".0 " + a.Denom().String() + ".0)"
	}
	if neg {
		s = "(- " + s + ")"
	}
	return &Term{Op: s, Sort: SReal, Kind: kLit}
}

func RealLitStr(dec string) *Term {
	r, ok := new(big.Rat).SetString(dec)
	if !ok {
		panic("bad real literal " + dec)
	}
	return RealLitRat(r)
}

func (t *Term) IsTrue() bool  { return t == TTrue || (t.Kind == kLit && t.Op == "true") }
func (t *Term) IsFalse() bool { return t == TFalse || (t.Kind == kLit && t.Op == "false") }

func Var(name string, s Sort) *Term { return &Term{Op: name, Sort: s, Kind: kVar} }

func App(op string, s Sort, args ...*Term) *Term {
	return &Term{Op: op, Sort: s, Args: args, Kind: kApp}
}

func Not(a *Term) *Term {
	if a.IsTrue() {
		return TFalse
	}
	if a.IsFalse() {
		return TTrue
	}
	if a.Kind == kApp && a.Op == "not" {
		return a.Args[0]
	}
	return App("not", SBool, a)
}

func And(as ...*Term) *Term {
	var out []*Term
	for _, a := range as {
		if a == nil || a.IsTrue() {
			continue
		}
		if a.IsFalse() {
			return TFalse
		}
		if a.Kind == kApp && a.Op == "and" {
			out = append(out, a.Args...)
		} else {
			out = append(out, a)
		}
	}
	if len(out) == 0 {
		return TTrue
	}
	if len(out) == 1 {
		return out[0]
	}
	return App("and", SBool, out...)
}

func Or(as ...*Term) *Term {
	var out []*Term
	for _, a := range as {
		if a == nil || a.IsFalse() {
			continue
		}
		if a.IsTrue() {
			return TTrue
		}
		if a.Kind == kApp && a.Op == "or" {
			out = append(out, a.Args...)
		} else {
			out = append(out, a)
		}
	}
	if len(out) == 0 {
		return TFalse
	}
	if len(out) == 1 {
		return out[0]
	}
	return App("or", SBool, out...)
}

func Implies(a, b *Term) *Term {
	if a.IsTrue() {
		return b
	}
	if a.IsFalse() || b.IsTrue() {
		return TTrue
	}
	return App("=>", SBool, a, b)
}

func Iff(a, b *Term) *Term { return App("=", SBool, a, b) }

func Eq(a, b *Term) *Term {
	if a.Sort != b.Sort {
		a, b = coerceNum(a, b)
		if a.Sort != b.Sort {
			panic(fmt.Sprintf("Eq sort mismatch: %s:%s vs %s:%s", a, a.Sort, b, b.Sort))
		}
	}
	if a.String() == b.String() {
		return TTrue
	}
	if a.Kind == kLit && b.Kind == kLit && (a.Sort == SInt || a.Sort == SBool) {
		return TFalse
	}
	return App("=", SBool, a, b)
}

func Ite(c, a, b *Term) *Term {
	if c.IsTrue() {
		return a
	}
	if c.IsFalse() {
		return b
	}
	if a.Sort != b.Sort {
		a, b = coerceNum(a, b)
		if a.Sort != b.Sort {
			panic(fmt.Sprintf("Ite sort mismatch: %s:%s vs %s:%s", a, a.Sort, b, b.Sort))
		}
	}
	if a.String() == b.String() {
		return a
	}
	return App("ite", a.Sort, c, a, b)
}

func ToReal(a *Term) *Term {
	if a.Sort == SReal {
		return a
	}
	if a.Kind == kLit {
		// integer literal -> real literal
		s := a.Op
		if strings.HasPrefix(s, "(- ") {
			return &Term{Op: "(- " + s[3:len(s)-1] + ".0)", Sort: SReal, Kind: kLit}
		}
		return &Term{Op: s + ".0", Sort: SReal, Kind: kLit}
	}
	return App("to_real", SReal, a)
}

func coerceNum(a, b *Term) (*Term, *Term) {
	if a.Sort == SInt && b.Sort == SReal {
		return ToReal(a), b
	}
	if a.Sort == SReal && b.Sort == SInt {
		return a, ToReal(b)
	}
	return a, b
}

func Arith(op string, a, b *Term) *Term {
	a, b = coerceNum(a, b)
	if a.Sort != b.Sort {
		panic(fmt.Sprintf("arith sort mismatch %s: %s:%s %s:%s", op, a, a.Sort, b, b.Sort))
	}
	if a.Sort == SInt && a.Kind == kLit && b.Kind == kLit {
		x, ok1 := litInt(a)
		y, ok2 := litInt(b)
		if ok1 && ok2 {
			switch op {
			case "+":
				return BigIntLit(new(big.Int).Add(x, y))
			case "-":
				return BigIntLit(new(big.Int).Sub(x, y))
			case "*":
				return BigIntLit(new(big.Int).Mul(x, y))
			}
		}
	}
	if a.Sort == SInt && (op == "+" || op == "-") && b.Kind == kLit && b.Op == "0" {
		return a
	}
	if a.Sort == SInt && op == "+" && a.Kind == kLit && a.Op == "0" {
		return b
	}
	if op == "/" && a.Sort == SInt {
		// Go integer division truncates toward zero
		return App("godiv", SInt, a, b)
	}
	if op == "%" {
		return App("gomod", SInt, a, b)
	}
	return App(op, a.Sort, a, b)
}

func litInt(t *Term) (*big.Int, bool) {
	s := t.Op
	neg := false
	if strings.HasPrefix(s, "(- ") {
		neg = true
		s = s[3 : len(s)-1]
	}
	n, ok := new(big.Int).SetString(s, 10)
	if !ok {
		return nil, false
	}
	if neg {
		n.Neg(n)
	}
	return n, true
}

func Cmp(op string, a, b *Term) *Term {
	a, b = coerceNum(a, b)
	if a.Sort != b.Sort {
		panic(fmt.Sprintf("cmp sort mismatch %s: %s:%s %s:%s", op, a, a.Sort, b, b.Sort))
	}
	if a.Sort == SInt && a.Kind == kLit && b.Kind == kLit {
		x, ok1 := litInt(a)
		y, ok2 := litInt(b)
		if ok1 && ok2 {
			c := x.Cmp(y)
			var r bool
			switch op {
			case "<":
				r = c < 0
			case "<=":
				r = c <= 0
			case ">":
				r = c > 0
			case ">=":
				r = c >= 0
			}
			if r {
				return TTrue
			}
			return TFalse
		}
	}
	return App(op, SBool, a, b)
}

// allocRanks orders the allocation-counter variables of the function being verified: a variable of higher rank is
// known (by an assumption added when it was introduced) to be >= every id formed from lower-ranked ones.
// Parameters of reference type get rank -1 (they are < alloc_0 but not ordered among themselves).
var allocRanks = map[string]int{}

var entryOnlyHook func(t *Term) bool

func idRank(t *Term) (rank int, off int64, ok bool) {
	if t.Kind == kVar {
		r, ok := allocRanks[t.Op]
		if ok {
			return r, 0, ok
		}
	}
	// an object id computed from entry-state symbols only (parameters, the initial heap) existed at function entry
	if t.Kind != kLit && entryOnlyHook != nil && entryOnlyHook(t) {
		return -1, 0, true
	}
	if t.Kind == kApp && t.Op == "+" && len(t.Args) == 2 && t.Args[0].Kind == kVar && t.Args[1].Kind == kLit {
		if r, ok := allocRanks[t.Args[0].Op]; ok && r >= 0 {
			if n, ok2 := litInt(t.Args[1]); ok2 {
				return r, n.Int64(), true
			}
		}
	}
	return 0, 0, false
}

// distinctIDs: syntactic proof that two object ids differ.
func distinctIDs(a, b *Term) bool {
	ra, oa, ok1 := idRank(a)
	rb, ob, ok2 := idRank(b)
	if !ok1 || !ok2 {
		return false
	}
	if ra == -1 && rb == -1 {
		return false
	}
	return ra != rb || oa != ob
}

func Select(arr, idx *Term) *Term {
	_, v := arr.Sort.ArrayParts()
	for arr.Kind == kApp && arr.Op == "store" {
		if arr.Args[1].String() == idx.String() {
			return arr.Args[2]
		}
		if idx.Sort == SInt && distinctIDs(arr.Args[1], idx) {
			arr = arr.Args[0]
			continue
		}
		break
	}
	return App("select", v, arr, idx)
}

func Store(arr, idx, val *Term) *Term {
	_, v := arr.Sort.ArrayParts()
	if val.Sort != v {
		panic(fmt.Sprintf("store sort mismatch: array %s value %s:%s", arr.Sort, val, val.Sort))
	}
	// overwriting the same index: the earlier store is dead
	if arr.Kind == kApp && arr.Op == "store" && arr.Args[1].String() == idx.String() {
		arr = arr.Args[0]
	}
	return App("store", arr.Sort, arr, idx, val)
}

func Forall(bound []*Term, body *Term, pats ...[]*Term) *Term {
	if len(bound) == 0 || body.IsTrue() {
		return body
	}
	return &Term{Op: "forall", Sort: SBool, Kind: kQuant, Bound: bound, Args: []*Term{body}, Pats: pats}
}

func Exists(bound []*Term, body *Term) *Term {
	if len(bound) == 0 {
		return body
	}
	return &Term{Op: "exists", Sort: SBool, Kind: kQuant, Bound: bound, Args: []*Term{body}}
}

// walk visits every sub-term.
func (t *Term) walk(f func(*Term)) {
	f(t)
	for _, a := range t.Args {
		a.walk(f)
	}
	for _, p := range t.Pats {
		for _, pt := range p {
			pt.walk(f)
		}
	}
}

// subst replaces variables (by name) with terms.
func (t *Term) subst(m map[string]*Term) *Term {
	if len(m) == 0 {
		return t
	}
	switch t.Kind {
	case kVar:
		if r, ok := m[t.Op]; ok {
			return r
		}
		return t
	case kLit:
		return t
	case kQuant:
		m2 := m
		for _, b := range t.Bound {
			if _, ok := m[b.Op]; ok {
				m2 = map[string]*Term{}
				for k, v := range m {
					m2[k] = v
				}
				for _, b := range t.Bound {
					delete(m2, b.Op)
				}
				break
			}
		}
		nt := &Term{Op: t.Op, Sort: t.Sort, Kind: kQuant, Bound: t.Bound}
		nt.Args = []*Term{t.Args[0].subst(m2)}
		for _, p := range t.Pats {
			var np []*Term
			for _, pt := range p {
				np = append(np, pt.subst(m2))
			}
			nt.Pats = append(nt.Pats, np)
		}
		return nt
	}
	if len(t.Args) == 0 {
		return t
	}
	changed := false
	na := make([]*Term, len(t.Args))
	for i, a := range t.Args {
		na[i] = a.subst(m)
		if na[i] != a {
			changed = true
		}
	}
	if !changed {
		return t
	}
	return &Term{Op: t.Op, Sort: t.Sort, Kind: t.Kind, Args: na}
}

// ---------------------------------------------------------------------------
// Declarations

type FuncDecl struct {
	Name string
	Args []Sort
	Ret  Sort
}

type Datatype struct {
	Name   Sort
	Ctor   string
	Fields []DTField
}
type DTField struct {
	Sel  string
	Sort Sort
}

// Universe collects everything that has to be declared in an SMT file.
type Universe struct {
	datatypes map[Sort]*Datatype
	dtOrder   []Sort
	funcs     map[string]*FuncDecl // uninterpreted functions and constants
	axioms    map[string][]*Term   // axioms attached to a symbol name: emitted when the symbol is used
	usorts    map[Sort]bool
	strLits   map[string]string // string literal constant -> its text (literals are pairwise distinct and have a known length)
}

func NewUniverse() *Universe {
	u := &Universe{datatypes: map[Sort]*Datatype{}, funcs: map[string]*FuncDecl{}, axioms: map[string][]*Term{}, usorts: map[Sort]bool{}, strLits: map[string]string{}}
	u.usorts[SStr] = true
	u.usorts[SIface] = true
	u.Declare("u_mul_Real", SReal, SReal, SReal)
	u.Declare("u_div_Real", SReal, SReal, SReal)
	u.Declare("u_mul_Int", SInt, SInt, SInt)
	u.Declare("sidx", SInt, SInt, SInt)
	{
		o, i := Var("so", SInt), Var("sx", SInt)
		u.AddAxiom("sidx", Forall([]*Term{o, i}, Eq(App("sidx", SInt, o, i), App("+", SInt, o, i)), []*Term{App("sidx", SInt, o, i)}))
	}
	u.AddDatatype(&Datatype{Name: SSlice, Ctor: "mk_slice", Fields: []DTField{{"sl_arr", SInt}, {"sl_off", SInt}, {"sl_len", SInt}, {"sl_cap", SInt}}})
	return u
}

func (u *Universe) AddDatatype(d *Datatype) {
	if _, ok := u.datatypes[d.Name]; ok {
		return
	}
	u.datatypes[d.Name] = d
	u.dtOrder = append(u.dtOrder, d.Name)
}

func (u *Universe) Declare(name string, ret Sort, args ...Sort) {
	if d, ok := u.funcs[name]; ok {
		if d.Ret != ret || len(d.Args) != len(args) {
			panic("conflicting declaration of " + name)
		}
		return
	}
	u.funcs[name] = &FuncDecl{Name: name, Args: args, Ret: ret}
}

func (u *Universe) AddAxiom(sym string, ax *Term) { u.axioms[sym] = append(u.axioms[sym], ax) }

// sortDeps returns datatype sorts mentioned by a sort (for arrays: parts).
func sortLeaves(s Sort, f func(Sort)) {
	if s.IsArray() {
		k, v := s.ArrayParts()
		sortLeaves(k, f)
		sortLeaves(v, f)
		return
	}
	f(s)
}

// abstractNonlinear replaces products and quotients of two non-literal terms by uninterpreted applications.
// A proof under this abstraction is a proof for real multiplication (the abstraction only forgets facts).
func abstractNonlinear(t *Term) *Term {
	switch t.Kind {
	case kLit, kVar:
		return t
	case kQuant:
		nt := &Term{Op: t.Op, Sort: t.Sort, Kind: kQuant, Bound: t.Bound}
		nt.Args = []*Term{abstractNonlinear(t.Args[0])}
		for _, p := range t.Pats {
			var np []*Term
			for _, pt := range p {
				np = append(np, abstractNonlinear(pt))
			}
			nt.Pats = append(nt.Pats, np)
		}
		return nt
	}
	if len(t.Args) == 0 {
		return t
	}
	na := make([]*Term, len(t.Args))
	changed := false
	for i, a := range t.Args {
		na[i] = abstractNonlinear(a)
		if na[i] != a {
			changed = true
		}
	}
	if (t.Op == "*" || t.Op == "/") && len(na) == 2 && na[0].Kind != kLit && na[1].Kind != kLit {
		name := map[string]string{"*": "u_mul", "/": "u_div"}[t.Op] + "_" + string(t.Sort)
		a, b := na[0], na[1]
		if t.Op == "*" && a.String() > b.String() {
			a, b = b, a
		}
		return &Term{Op: name, Sort: t.Sort, Kind: kApp, Args: []*Term{a, b}}
	}
	if !changed {
		return t
	}
	return &Term{Op: t.Op, Sort: t.Sort, Kind: t.Kind, Args: na}
}

// ScriptAbstract: like Script, with nonlinear arithmetic abstracted.
func (u *Universe) ScriptAbstract(assumptions []*Term, goal *Term) string {
	as := make([]*Term, len(assumptions))
	for i, a := range assumptions {
		as[i] = abstractNonlinear(a)
	}
	return u.script(as, abstractNonlinear(goal), false, true)
}

// scriptMode: bit 0 = abstract nonlinear arithmetic; bit 1 = sidx without its defining equation (injectivity only).
var sidxInjective *Term

// stripUserPatterns removes the explicit triggers of quantifiers that come from contracts (bound variables q_*),
// leaving trigger selection to the solver.
func stripUserPatterns(t *Term) *Term {
	switch t.Kind {
	case kLit, kVar:
		return t
	case kQuant:
		nt := &Term{Op: t.Op, Sort: t.Sort, Kind: kQuant, Bound: t.Bound}
		nt.Args = []*Term{stripUserPatterns(t.Args[0])}
		user := len(t.Bound) > 0 && strings.HasPrefix(t.Bound[0].Op, "q_")
		if !user {
			nt.Pats = t.Pats
		}
		return nt
	}
	if len(t.Args) == 0 {
		return t
	}
	na := make([]*Term, len(t.Args))
	changed := false
	for i, a := range t.Args {
		na[i] = stripUserPatterns(a)
		if na[i] != a {
			changed = true
		}
	}
	if !changed {
		return t
	}
	return &Term{Op: t.Op, Sort: t.Sort, Kind: t.Kind, Args: na}
}

func (u *Universe) ScriptVariant3(assumptions []*Term, goal *Term, abstractNL, sidxUninterpreted, noUserPats bool) string {
	if noUserPats {
		as := make([]*Term, len(assumptions))
		for i, a := range assumptions {
			as[i] = stripUserPatterns(a)
		}
		return u.ScriptVariant(as, stripUserPatterns(goal), abstractNL, sidxUninterpreted)
	}
	return u.ScriptVariant(assumptions, goal, abstractNL, sidxUninterpreted)
}

func (u *Universe) ScriptVariant(assumptions []*Term, goal *Term, abstractNL bool, sidxUninterpreted bool) string {
	as := assumptions
	g := goal
	if abstractNL {
		as = make([]*Term, len(assumptions))
		for i, a := range assumptions {
			as[i] = abstractNonlinear(a)
		}
		g = abstractNonlinear(goal)
	}
	txt := u.script(as, g, false, abstractNL)
	if sidxUninterpreted {
		def := "(assert (forall ((so Int) (sx Int)) (! (= (sidx so sx) (+ so sx)) :pattern ((sidx so sx)))))\n"
		inj := "(assert (forall ((so Int) (sx Int) (sy Int)) (! (=> (= (sidx so sx) (sidx so sy)) (= sx sy)) :pattern ((sidx so sx) (sidx so sy)))))\n"
		txt = strings.Replace(txt, def, inj, 1)
	}
	return txt
}

// Script renders a complete SMT-LIB script checking that assumptions => goal (by refutation).
func (u *Universe) Script(assumptions []*Term, goal *Term, wantModel bool) string {
	return u.script(assumptions, goal, wantModel, false)
}

func (u *Universe) script(assumptions []*Term, goal *Term, wantModel bool, abstract bool) string {
	usedSyms := map[string]bool{}
	usedSorts := map[Sort]bool{}
	var scanTerm func(t *Term)
	boundNames := map[string]int{}
	scanTerm = func(t *Term) {
		switch t.Kind {
		case kVar:
			sortLeaves(t.Sort, func(s Sort) { usedSorts[s] = true })
			if boundNames[t.Op] == 0 {
				usedSyms[t.Op] = true
			}
			return
		case kLit:
			return
		case kQuant:
			for _, b := range t.Bound {
				boundNames[b.Op]++
				sortLeaves(b.Sort, func(s Sort) { usedSorts[s] = true })
			}
			scanTerm(t.Args[0])
			for _, p := range t.Pats {
				for _, pt := range p {
					scanTerm(pt)
				}
			}
			for _, b := range t.Bound {
				boundNames[b.Op]--
			}
			return
		}
		usedSyms[t.Op] = true
		sortLeaves(t.Sort, func(s Sort) { usedSorts[s] = true })
		for _, a := range t.Args {
			scanTerm(a)
		}
	}
	all := append([]*Term{}, assumptions...)
	all = append(all, goal)
	for _, t := range all {
		scanTerm(t)
	}
	// pull in axioms of used symbols (to a fixpoint)
	var axioms []*Term
	doneAx := map[string]bool{}
	for changed := true; changed; {
		changed = false
		var names []string
		for s := range usedSyms {
			names = append(names, s)
		}
		sort.Strings(names)
		for _, s := range names {
			if doneAx[s] {
				continue
			}
			doneAx[s] = true
			for _, ax := range u.axioms[s] {
				if abstract {
					ax = abstractNonlinear(ax)
				}
				axioms = append(axioms, ax)
				scanTerm(ax)
				changed = true
			}
		}
	}
	// datatype closure
	for changed := true; changed; {
		changed = false
		for s := range usedSorts {
			if d, ok := u.datatypes[s]; ok {
				for _, f := range d.Fields {
					sortLeaves(f.Sort, func(x Sort) {
						if !usedSorts[x] {
							usedSorts[x] = true
							changed = true
						}
					})
				}
			}
		}
		for s := range usedSyms {
			if d, ok := u.funcs[s]; ok {
				for _, a := range append([]Sort{d.Ret}, d.Args...) {
					sortLeaves(a, func(x Sort) {
						if !usedSorts[x] {
							usedSorts[x] = true
							changed = true
						}
					})
				}
			}
		}
	}
	var b strings.Builder
	if wantModel {
		b.WriteString("(set-option :produce-models true)\n")
	}
	b.WriteString("(set-logic ALL)\n")
	for s := range u.usorts {
		_ = s
	}
	var us []string
	for s := range u.usorts {
		if usedSorts[s] {
			us = append(us, string(s))
		}
	}
	sort.Strings(us)
	for _, s := range us {
		b.WriteString("(declare-sort " + s + " 0)\n")
	}
	// datatypes in registration order (dependencies are registered first)
	for _, name := range u.dtOrder {
		if !usedSorts[name] {
			continue
		}
		d := u.datatypes[name]
		b.WriteString("(declare-datatypes ((" + string(d.Name) + " 0)) (((" + d.Ctor)
		for _, f := range d.Fields {
			b.WriteString(" (" + f.Sel + " " + string(f.Sort) + ")")
		}
		b.WriteString("))))\n")
	}
	// builtin helper functions
	if usedSyms["godiv"] {
		b.WriteString("(define-fun godiv ((a Int) (b Int)) Int (ite (>= a 0) (ite (> b 0) (div a b) (- (div a (- b)))) (ite (> b 0) (- (div (- a) b)) (div (- a) (- b)))))\n")
	}
	if usedSyms["gomod"] {
		b.WriteString("(define-fun gomod ((a Int) (b Int)) Int (ite (>= a 0) (mod a (ite (> b 0) b (- b))) (- (mod (- a) (ite (> b 0) b (- b))))))\n")
	}
	if usedSyms["rabs"] {
		b.WriteString("(define-fun rabs ((a Real)) Real (ite (>= a 0.0) a (- a)))\n")
	}
	if usedSyms["rmin"] {
		b.WriteString("(define-fun rmin ((a Real) (b Real)) Real (ite (<= a b) a b))\n")
	}
	if usedSyms["rmax"] {
		b.WriteString("(define-fun rmax ((a Real) (b Real)) Real (ite (>= a b) a b))\n")
	}
	if usedSyms["trunc"] {
		b.WriteString("(define-fun trunc ((a Real)) Int (ite (>= a 0.0) (to_int a) (- (to_int (- a)))))\n")
	}
	var fs []string
	for s := range usedSyms {
		if _, ok := u.funcs[s]; ok {
			fs = append(fs, s)
		}
	}
	sort.Strings(fs)
	for _, s := range fs {
		d := u.funcs[s]
		b.WriteString("(declare-fun " + s + " (")
		for i, a := range d.Args {
			if i > 0 {
				b.WriteString(" ")
			}
			b.WriteString(string(a))
		}
		b.WriteString(") " + string(d.Ret) + ")\n")
	}
	// free variables (kVar) that are not declared functions: declare as constants
	vars := map[string]Sort{}
	var collectVars func(t *Term, bound map[string]int)
	collectVars = func(t *Term, bound map[string]int) {
		switch t.Kind {
		case kVar:
			if bound[t.Op] == 0 {
				if _, ok := u.funcs[t.Op]; !ok {
					vars[t.Op] = t.Sort
				}
			}
		case kQuant:
			for _, bv := range t.Bound {
				bound[bv.Op]++
			}
			collectVars(t.Args[0], bound)
			for _, p := range t.Pats {
				for _, pt := range p {
					collectVars(pt, bound)
				}
			}
			for _, bv := range t.Bound {
				bound[bv.Op]--
			}
		default:
			for _, a := range t.Args {
				collectVars(a, bound)
			}
		}
	}
	for _, t := range all {
		collectVars(t, map[string]int{})
	}
	for _, t := range axioms {
		collectVars(t, map[string]int{})
	}
	var vs []string
	for v := range vars {
		vs = append(vs, v)
	}
	sort.Strings(vs)
	for _, v := range vs {
		b.WriteString("(declare-fun " + v + " () " + string(vars[v]) + ")\n")
	}
	for _, ax := range axioms {
		b.WriteString("(assert " + ax.String() + ")\n")
	}
	// string literals: pairwise different, and of their length
	{
		var lits []string
		for s := range usedSyms {
			if _, ok := u.strLits[s]; ok {
				lits = append(lits, s)
			}
		}
		sort.Strings(lits)
		if len(lits) >= 2 {
			b.WriteString("(assert (distinct " + strings.Join(lits, " ") + "))\n")
		}
		if usedSyms["str_len"] {
			for _, l := range lits {
				b.WriteString(fmt.Sprintf("(assert (= (str_len %s) %d))\n", l, len(u.strLits[l])))
			}
		}
	}
	for _, a := range assumptions {
		if a.IsTrue() {
			continue
		}
		b.WriteString("(assert " + a.String() + ")\n")
	}
	b.WriteString("(assert (not " + goal.String() + "))\n")
	b.WriteString("(check-sat)\n")
	if wantModel {
		b.WriteString("(get-model)\n")
	}
	return b.String()
}
