package main

// Replaying solver counterexamples against the real code (DESIGN.md section 5.4 / 12.1).
//
// Scope: functions whose parameters and results are built from float64 / int / bool / string, structs of such, and
// pointers to such (no slices, maps, interfaces or function values).  For a failed obligation with a model the inputs are
// read off the model, the real function is called on them in an in-package test injected with `go test -overlay`, and
//   - for an `ensures` obligation the returned values are compared with the values the solver derived for them: when they
//     agree, the real code produces exactly the output for which the solver refuted the clause;
//   - for `panics.justified` / `safe.nopanic` the real call must panic, for `panics.iff_returns` it must return.
// Anything else (or a disagreement, e.g. through float64 rounding) is reported as "not replayed".

import (
	"bytes"
	"context"
	"encoding/json"
	"fmt"
	"go/types"
	"math"
	"os"
	"os/exec"
	"path/filepath"
	"regexp"
	"sort"
	"strconv"
	"strings"
	"time"

	"golang.org/x/tools/go/ssa"
)

type replayLeaf struct {
	Expr string // Go expression of the leaf inside the harness (inputs: assignment target; outputs: value)
	Term *Term
	Kind string // real int bool str
}

type ReplayInfo struct {
	Fn      *ssa.Function
	Mode    string // returns | panics
	Setup   []string // Go statements declaring the arguments (before the leaves are assigned)
	Args    []string // argument expressions of the call
	Inputs  []replayLeaf
	Outputs []replayLeaf
	Imports map[string]string // path -> alias
	Ptrs    []replayPtr
	StrLits map[string]string // strlit constant -> literal text
}

type replayPtr struct {
	Var  string
	Term *Term
	Type string
	Expr string // where the pointer is stored
}

func leafKind(t types.Type) string {
	if b, ok := types.Unalias(t).Underlying().(*types.Basic); ok {
		switch {
		case b.Info()&types.IsFloat != 0:
			return "real"
		case b.Info()&types.IsInteger != 0:
			return "int"
		case b.Info()&types.IsBoolean != 0:
			return "bool"
		case b.Info()&types.IsString != 0:
			return "str"
		}
	}
	return ""
}

// replayInfo describes how to call the function under verification with values read from a model (nil if out of scope).
func (x *Exec) replayInfo(st *State, results []*Term, mode string) (ri *ReplayInfo) {
	defer func() {
		if r := recover(); r != nil {
			ri = nil
		}
	}()
	fn := x.vc.fn
	if fn.Parent() != nil || len(fn.FreeVars) > 0 || fn.Pkg == nil {
		return nil
	}
	ri = &ReplayInfo{Fn: fn, Mode: mode, Imports: map[string]string{}, StrLits: map[string]string{}}
	qual := func(p *types.Package) string {
		if p == fn.Pkg.Pkg {
			return ""
		}
		alias := "p" + sanitize(p.Name())
		ri.Imports[p.Path()] = alias
		return alias
	}
	n := 0
	ok := true
	var walkIn func(expr string, term *Term, t types.Type, depth int)
	walkIn = func(expr string, term *Term, t types.Type, depth int) {
		if depth > 4 {
			ok = false
			return
		}
		if k := leafKind(t); k != "" {
			ri.Inputs = append(ri.Inputs, replayLeaf{Expr: expr, Term: term, Kind: k})
			return
		}
		switch u := types.Unalias(t).Underlying().(type) {
		case *types.Struct:
			s := x.TI.SortOf(t)
			for i := 0; i < u.NumFields(); i++ {
				walkIn(expr+"."+u.Field(i).Name(), x.TI.FieldSel(s, i, term), u.Field(i).Type(), depth+1)
			}
		case *types.Pointer:
			if _, isStruct := types.Unalias(u.Elem()).Underlying().(*types.Struct); !isStruct {
				ok = false
				return
			}
			n++
			v := fmt.Sprintf("o%d", n)
			ts := types.TypeString(u.Elem(), qual)
			pe := expr
			if depth == 0 {
				pe = "" // a pointer parameter is never replayed as nil (a dereference assumes non-nil, DESIGN.md section 9)
			}
			ri.Ptrs = append(ri.Ptrs, replayPtr{Var: v, Term: term, Type: ts, Expr: pe})
			ri.Setup = append(ri.Setup, fmt.Sprintf("%s := &%s{}", v, ts), fmt.Sprintf("%s = %s", expr, v))
			s := x.TI.SortOf(u.Elem())
			pointee := Select(x.heapGet(x.vc.entry, hpComp(s), hpSort(s)), term)
			walkIn("(*"+v+")", pointee, u.Elem(), depth+1)
		default:
			ok = false
		}
	}
	for i, p := range fn.Params {
		name := p.Name()
		sv, has := x.vc.paramEnv[name]
		if !has || sv.T == nil {
			return nil
		}
		v := fmt.Sprintf("a%d", i)
		ri.Setup = append(ri.Setup, fmt.Sprintf("var %s %s", v, types.TypeString(p.Type(), qual)))
		ri.Args = append(ri.Args, v)
		walkIn(v, sv.T, p.Type(), 0)
	}
	if !ok {
		return nil
	}
	var walkOut func(expr string, term *Term, t types.Type, depth int)
	walkOut = func(expr string, term *Term, t types.Type, depth int) {
		if depth > 3 || !ok {
			ok = false
			return
		}
		if k := leafKind(t); k != "" {
			ri.Outputs = append(ri.Outputs, replayLeaf{Expr: expr, Term: term, Kind: k})
			return
		}
		switch u := types.Unalias(t).Underlying().(type) {
		case *types.Struct:
			s := x.TI.SortOf(t)
			for i := 0; i < u.NumFields(); i++ {
				if leafKind(u.Field(i).Type()) != "" {
					walkOut(expr+"."+u.Field(i).Name(), x.TI.FieldSel(s, i, term), u.Field(i).Type(), depth+1)
				}
			}
		case *types.Pointer:
			if _, isStruct := types.Unalias(u.Elem()).Underlying().(*types.Struct); !isStruct {
				ok = false
				return
			}
			s := x.TI.SortOf(u.Elem())
			walkOut("(*"+expr+")", Select(x.heapGet(st, hpComp(s), hpSort(s)), term), u.Elem(), depth+1)
		default:
			ok = false
		}
	}
	res := fn.Signature.Results()
	if mode == "returns" {
		for i, t := range results {
			walkOut(fmt.Sprintf("r%d", i), t, res.At(i).Type(), 0)
		}
		if !ok {
			return nil
		}
	}
	for name := range x.U.funcs {
		if strings.HasPrefix(name, "strlit_") {
			if v, has := x.TI.litText[name]; has {
				ri.StrLits[name] = v
			}
		}
	}
	return ri
}

// ---- model access

type sexp struct {
	atom string
	list []*sexp
}

func parseSexps(s string) []*sexp {
	var stack [][]*sexp
	cur := []*sexp{}
	i := 0
	for i < len(s) {
		c := s[i]
		switch {
		case c == '(':
			stack = append(stack, cur)
			cur = []*sexp{}
			i++
		case c == ')':
			l := &sexp{list: cur}
			if len(stack) == 0 {
				return cur
			}
			cur = stack[len(stack)-1]
			stack = stack[:len(stack)-1]
			cur = append(cur, l)
			i++
		case c == ' ' || c == '\n' || c == '\t' || c == '\r':
			i++
		case c == '|':
			j := strings.IndexByte(s[i+1:], '|')
			if j < 0 {
				return cur
			}
			cur = append(cur, &sexp{atom: s[i : i+j+2]})
			i += j + 2
		default:
			j := i
			for j < len(s) && !strings.ContainsRune("() \n\t\r", rune(s[j])) {
				j++
			}
			cur = append(cur, &sexp{atom: s[i:j]})
			i = j
		}
	}
	return cur
}

func (e *sexp) String() string {
	if e.list == nil {
		return e.atom
	}
	var ps []string
	for _, c := range e.list {
		ps = append(ps, c.String())
	}
	return "(" + strings.Join(ps, " ") + ")"
}

func sexpNumber(e *sexp) (float64, bool) {
	if e.list == nil {
		f, err := strconv.ParseFloat(e.atom, 64)
		return f, err == nil
	}
	if len(e.list) == 2 && e.list[0].atom == "-" {
		f, ok := sexpNumber(e.list[1])
		return -f, ok
	}
	if len(e.list) == 3 && e.list[0].atom == "/" {
		a, ok1 := sexpNumber(e.list[1])
		b, ok2 := sexpNumber(e.list[2])
		if ok1 && ok2 && b != 0 {
			return a / b, true
		}
	}
	return 0, false
}

// tryReplay: see the file comment.  Returns (reproduced, description).
func tryReplay(w *World, o *Obligation, rec map[string]interface{}) (bool, string) {
	ri := o.Replay
	if ri == nil {
		return false, "outside the replay scope (parameters/results with slices, maps, interfaces or function values, or not an ensures/panics obligation); the solver model is attached"
	}
	if o.File == "" || strings.Contains(o.Solver, "(") {
		return false, "the model comes from a weakened encoding: not a counterexample"
	}
	data, err := os.ReadFile(o.File)
	if err != nil {
		return false, "cannot read the obligation file"
	}
	script := string(data)
	script = strings.Replace(script, "(get-model)", "", -1)
	idx := strings.LastIndex(script, "(check-sat)")
	if idx < 0 {
		return false, "malformed obligation file"
	}
	script = script[:idx]
	var names []string
	var b strings.Builder
	b.WriteString(script)
	declared := map[string]bool{}
	for _, m := range regexp.MustCompile(`\(declare-(?:fun|const|datatypes?) \(?\(?(\S+)`).FindAllStringSubmatch(script, -1) {
		declared[strings.Trim(m[1], "()")] = true
	}
	known := func(t *Term) bool {
		ok := true
		t.walk(func(s *Term) {
			if (s.Kind == kVar || (s.Kind == kApp && len(s.Args) == 0)) && !declared[s.Op] && !strings.HasPrefix(s.Op, "(") {
				if _, err := strconv.ParseFloat(s.Op, 64); err != nil && s.Op != "true" && s.Op != "false" {
					ok = false
				}
			}
		})
		return ok
	}
	def := func(name string, t *Term) {
		if !known(t) {
			return // the obligation does not mention this part of the state: any value will do (Go zero value)
		}
		fmt.Fprintf(&b, "(declare-const %s %s)\n(assert (= %s %s))\n", name, t.Sort, name, t.String())
		names = append(names, name)
	}
	for i, l := range ri.Inputs {
		def(fmt.Sprintf("rv_in_%d", i), l.Term)
	}
	for i, l := range ri.Outputs {
		def(fmt.Sprintf("rv_out_%d", i), l.Term)
	}
	for i, p := range ri.Ptrs {
		def(fmt.Sprintf("rv_ptr_%d", i), p.Term)
	}
	var lits []string
	for name := range ri.StrLits {
		if strings.Contains(script, name+" ") || strings.Contains(script, name+")") {
			lits = append(lits, name)
		}
	}
	sort.Strings(lits)
	for i, name := range lits {
		def(fmt.Sprintf("rv_lit_%d", i), App(name, SStr))
	}
	b.WriteString("(check-sat)\n(get-value (" + strings.Join(names, " ") + "))\n")
	qf := strings.TrimSuffix(o.File, ".smt2") + ".replay.smt2"
	os.WriteFile(qf, []byte(b.String()), 0o644)
	ctx, cancel := context.WithTimeout(context.Background(), 60*time.Second)
	defer cancel()
	out, _ := exec.CommandContext(ctx, "z3-new", "-T:50", qf).CombinedOutput()
	text := string(out)
	if !strings.HasPrefix(strings.TrimSpace(text), "sat") {
		return false, "the solver did not reproduce the model with the read-out terms: " + truncate(strings.TrimSpace(text), 200)
	}
	vals := map[string]*sexp{}
	for _, top := range parseSexps(text[strings.Index(text, "sat")+3:]) {
		for _, pair := range top.list {
			if len(pair.list) == 2 {
				vals[pair.list[0].atom] = pair.list[1]
			}
		}
	}
	// strings: model values of the uninterpreted sort -> Go strings (literals keep their text)
	strOf := map[string]string{}
	for i, name := range lits {
		if v := vals[fmt.Sprintf("rv_lit_%d", i)]; v != nil {
			strOf[v.String()] = ri.StrLits[name]
		}
	}
	goStr := func(v *sexp) string {
		k := v.String()
		if s, ok := strOf[k]; ok {
			return s
		}
		s := "s" + regexp.MustCompile(`[^0-9A-Za-z]+`).ReplaceAllString(k, "")
		strOf[k] = s
		return s
	}
	inputsDesc := map[string]interface{}{}
	var assigns []string
	for i, l := range ri.Inputs {
		v := vals[fmt.Sprintf("rv_in_%d", i)]
		if v == nil {
			continue // not mentioned by the obligation: zero value
		}
		var lit string
		switch l.Kind {
		case "real":
			f, ok := sexpNumber(v)
			if !ok || math.IsInf(f, 0) || math.IsNaN(f) {
				return false, "model value of " + l.Expr + " is not a rational literal: " + v.String()
			}
			lit = strconv.FormatFloat(f, 'g', -1, 64)
			if !strings.ContainsAny(lit, ".e") {
				lit += ".0"
			}
			inputsDesc[l.Expr] = f
		case "int":
			f, ok := sexpNumber(v)
			if !ok || math.Abs(f) > 1e15 {
				return false, "model value of " + l.Expr + " is not a small integer: " + v.String()
			}
			lit = strconv.FormatInt(int64(f), 10)
			inputsDesc[l.Expr] = int64(f)
		case "bool":
			lit = v.String()
			inputsDesc[l.Expr] = lit == "true"
		case "str":
			lit = strconv.Quote(goStr(v))
			inputsDesc[l.Expr] = goStr(v)
		}
		assigns = append(assigns, fmt.Sprintf("%s = %s", l.Expr, convLit(l, lit)))
	}
	// pointers with the same model address share one object
	var share []string
	seenPtr := map[string]string{}
	for i, p := range ri.Ptrs {
		v := vals[fmt.Sprintf("rv_ptr_%d", i)]
		if v == nil {
			continue
		}
		if v.String() == "0" && p.Expr != "" {
			share = append(share, p.Expr+" = nil")
			continue
		}
		k := p.Type + "@" + v.String()
		if first, ok := seenPtr[k]; ok {
			share = append(share, fmt.Sprintf("*%s = *%s // same address in the model", p.Var, first))
		} else {
			seenPtr[k] = p.Var
		}
	}
	rec["replay_inputs"] = inputsDesc
	// harness
	fn := ri.Fn
	call := fn.Name()
	args := ri.Args
	if fn.Signature.Recv() != nil {
		call = "(" + args[0] + ")." + fn.Name()
		args = args[1:]
	}
	nres := fn.Signature.Results().Len()
	var lhs []string
	for i := 0; i < nres; i++ {
		lhs = append(lhs, fmt.Sprintf("r%d", i))
	}
	var src strings.Builder
	fmt.Fprintf(&src, "package %s\n\nimport (\n\t\"fmt\"\n\t\"testing\"\n", fn.Pkg.Pkg.Name())
	var ips []string
	for p := range ri.Imports {
		ips = append(ips, p)
	}
	sort.Strings(ips)
	for _, p := range ips {
		fmt.Fprintf(&src, "\t%s %q\n", ri.Imports[p], p)
	}
	src.WriteString(")\n\nfunc TestGocvReplay(t *testing.T) {\n")
	for _, s := range ri.Setup {
		src.WriteString("\t" + s + "\n")
	}
	for _, s := range assigns {
		src.WriteString("\t" + s + "\n")
	}
	for _, s := range share {
		src.WriteString("\t" + s + "\n")
	}
	src.WriteString("\tdefer func() {\n\t\tif r := recover(); r != nil {\n\t\t\tfmt.Printf(\"GOCV-REPLAY panic %v\\n\", r)\n\t\t}\n\t}()\n")
	if nres > 0 {
		fmt.Fprintf(&src, "\t%s := %s(%s)\n", strings.Join(lhs, ", "), call, strings.Join(args, ", "))
		for _, l := range lhs {
			fmt.Fprintf(&src, "\t_ = %s\n", l)
		}
	} else {
		fmt.Fprintf(&src, "\t%s(%s)\n", call, strings.Join(args, ", "))
	}
	src.WriteString("\tfmt.Println(\"GOCV-REPLAY returned\")\n")
	for i, l := range ri.Outputs {
		fmt.Fprintf(&src, "\tfmt.Printf(\"GOCV-OUT %d %%v\\n\", %s)\n", i, l.Expr)
	}
	src.WriteString("}\n")
	pkgDir := filepath.Dir(w.prog.Fset.Position(fn.Pos()).Filename)
	got, _ := runHarness(pkgDir, src.String())
	rec["replay_package_dir"] = pkgDir
	rec["replay_harness"] = src.String()
	rec["replay_output"] = truncate(got, 2000)
	panicked := strings.Contains(got, "GOCV-REPLAY panic")
	returned := strings.Contains(got, "GOCV-REPLAY returned")
	if !panicked && !returned {
		return false, "the replay harness did not run: " + truncate(got, 300)
	}
	switch {
	case ri.Mode == "panics":
		if panicked {
			rec["replay_expect"] = "GOCV-REPLAY panic"
			return true, "the real function panics on the model's input, outside the declared panic condition"
		}
		return false, "the real function returns normally on the model's input (the model follows a panicking path: semantics disagree)"
	case o.Kind == "panics.iff_returns":
		if returned {
			rec["replay_expect"] = "GOCV-REPLAY returned"
			return true, "the real function returns normally on the model's input although the declared panic condition holds"
		}
		return false, "the real function panics on the model's input"
	}
	if panicked {
		return false, "the real function panics on the model's input (the model follows a returning path)"
	}
	// compare the outputs with the solver's
	re := regexp.MustCompile(`GOCV-OUT (\d+) (.*)`)
	real := map[int]string{}
	for _, m := range re.FindAllStringSubmatch(got, -1) {
		k, _ := strconv.Atoi(m[1])
		real[k] = m[2]
	}
	outDesc := map[string]interface{}{}
	for i, l := range ri.Outputs {
		v := vals[fmt.Sprintf("rv_out_%d", i)]
		r, has := real[i]
		if v == nil || !has {
			return false, "output " + l.Expr + " not observed"
		}
		switch l.Kind {
		case "real", "int":
			mv, ok := sexpNumber(v)
			rv, err := strconv.ParseFloat(r, 64)
			if !ok || err != nil {
				return false, "output " + l.Expr + " is not numeric: model " + v.String() + ", real " + r
			}
			if math.Abs(mv-rv) > 1e-9*math.Max(1, math.Max(math.Abs(mv), math.Abs(rv))) {
				return false, fmt.Sprintf("output %s differs: the solver derived %v, the real code returns %v (float64 rounding or a modelling gap)", l.Expr, mv, rv)
			}
			outDesc[l.Expr] = rv
		case "bool":
			if v.String() != r {
				return false, fmt.Sprintf("output %s differs: the solver derived %s, the real code returns %s", l.Expr, v.String(), r)
			}
			outDesc[l.Expr] = r == "true"
		case "str":
			outDesc[l.Expr] = r
		}
	}
	rec["replay_outputs"] = outDesc
	var exp []string
	for i := range ri.Outputs {
		exp = append(exp, fmt.Sprintf("GOCV-OUT %d %s", i, real[i]))
	}
	rec["replay_expect"] = strings.Join(exp, "\n")
	return true, "the real function, called on the model's input, returns exactly the values for which the solver refuted the clause"
}

func convLit(l replayLeaf, lit string) string {
	return lit
}


// runHarness injects an in-package test with `go test -overlay` and returns its output.
func runHarness(pkgDir, src string) (string, bool) {
	scratch, err := os.MkdirTemp("", "gocv-replay")
	if err != nil {
		return "no scratch directory", false
	}
	defer os.RemoveAll(scratch)
	tf := filepath.Join(scratch, "replay_test.go")
	os.WriteFile(tf, []byte(src), 0o644)
	ov, _ := json.Marshal(map[string]interface{}{"Replace": map[string]string{filepath.Join(pkgDir, "zz_gocv_replay_test.go"): tf}})
	ovf := filepath.Join(scratch, "overlay.json")
	os.WriteFile(ovf, ov, 0o644)
	cctx, ccancel := context.WithTimeout(context.Background(), 120*time.Second)
	defer ccancel()
	cmd := exec.CommandContext(cctx, "go", "test", "-overlay", ovf, "-vet=off", "-count=1", "-timeout", "60s", "-run", "^TestGocvReplay$", "-v", ".")
	cmd.Dir = pkgDir
	cmd.Env = append(os.Environ(), "GOFLAGS=-mod=mod", "GOPROXY=off", "GOSUMDB=off", "GOTOOLCHAIN=local")
	var ob bytes.Buffer
	cmd.Stdout, cmd.Stderr = &ob, &ob
	cmd.Run()
	got := ob.String()
	return got, strings.Contains(got, "GOCV-REPLAY")
}
