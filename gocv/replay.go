package main

// Replaying solver counterexamples against the real code (see DESIGN.md section 5.4).

// tryReplay attempts to turn the solver's model for a failed obligation into a concrete call of the
// real function.  Returns (reproduced, description).
func tryReplay(w *World, o *Obligation, rec map[string]interface{}) (bool, string) {
	return false, "no replay harness for this obligation kind yet; the solver model is attached"
}
