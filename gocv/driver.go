package main

// Loading the repository, attaching contracts, generating and discharging obligations.

import (
	"fmt"
	"go/ast"
	"go/token"
	"go/types"
	"os"
	"path/filepath"
	"sort"
	"strings"

	"golang.org/x/tools/go/packages"
	"golang.org/x/tools/go/ssa"
	"golang.org/x/tools/go/ssa/ssautil"
)

type World struct {
	prog  *ssa.Program
	pkgs  []*packages.Package
	spkgs []*ssa.Package
	db    *SpecDB
	x     *Exec
	fns   map[string]*ssa.Function
}

// repoLib: the library under verification.  The registered checks always use /repo/lib; GOCV_REPO_LIB lets the seeded-change
// runner point the same engine at a scratch clone so that /repo's working tree is not touched while it runs.
var repoLib = func() string {
	if r := os.Getenv("GOCV_REPO_LIB"); r != "" {
		return r
	}
	return "/repo/lib"
}()

func loadWorld() (*World, error) {
	prog, spkgs, pkgs := loadProgram(repoLib, ssa.NaiveForm|ssa.InstantiateGenerics, "./...")
	w := &World{prog: prog, pkgs: pkgs, spkgs: spkgs, db: NewSpecDB(), fns: map[string]*ssa.Function{}}
	pkgOfDir := map[string]string{}
	for _, p := range pkgs {
		for _, f := range p.GoFiles {
			pkgOfDir[filepath.Dir(f)] = p.PkgPath
		}
	}
	if err := w.db.LoadSpecsFromRepo(repoLib, pkgOfDir); err != nil {
		return nil, err
	}
	w.x = NewExec(prog, w.db)
	for _, sp := range spkgs {
		if sp != nil {
			w.x.pkgByPath[sp.Pkg.Path()] = sp
		}
	}
	for fn := range ssautil.AllFunctions(prog) {
		if fn.Pkg == nil && fn.Parent() == nil {
			if fn.Signature.Recv() == nil {
				continue
			}
		}
		k := funcKey(fn)
		if strings.Contains(k, "RealDecisionMaker") {
			if old, dup := w.fns[k]; dup && old != fn {
				// wrappers / thunks share names with their targets: keep the one with a body in a package
				if old.Synthetic == "" {
					continue
				}
			}
			w.fns[k] = fn
		}
	}
	// anonymous functions in package-level variable initialisers: "pkg.var:Name#k"
	for _, p := range pkgs {
		for _, f := range p.Syntax {
			for _, d := range f.Decls {
				gd, ok := d.(*ast.GenDecl)
				if !ok || gd.Tok != token.VAR {
					continue
				}
				for _, sp := range gd.Specs {
					vs := sp.(*ast.ValueSpec)
					for i, name := range vs.Names {
						if i >= len(vs.Values) {
							continue
						}
						k := 0
						ast.Inspect(vs.Values[i], func(n ast.Node) bool {
							if fl, ok := n.(*ast.FuncLit); ok {
								k++
								for fn := range ssautil.AllFunctions(prog) {
									if syn, ok := fn.Syntax().(*ast.FuncLit); ok && syn == fl {
										w.fns[fmt.Sprintf("%s.var:%s#%d", p.PkgPath, name.Name, k)] = fn
										w.x.alias[fn] = fmt.Sprintf("%s.var:%s#%d", p.PkgPath, name.Name, k)
									}
								}
							}
							return true
						})
					}
				}
			}
		}
	}
	w.x.fnByKey = w.fns
	return w, nil
}

type FuncReport struct {
	Func   string
	Spec   *FuncSpec
	Obls   []*Obligation
	Notes  []string
	Err    error
	Paths  int
}

// generate runs the VC generator for every function under contract selected by keep.
func (w *World) generate(keep func(fs *FuncSpec) bool) []*FuncReport {
	var keys []string
	for k := range w.db.Funcs {
		keys = append(keys, k)
	}
	sort.Strings(keys)
	var out []*FuncReport
	for _, k := range keys {
		fs := w.db.Funcs[k]
		if fs.Trusted || !keep(fs) {
			continue
		}
		fn := w.fns[k]
		rep := &FuncReport{Func: k, Spec: fs}
		out = append(out, rep)
		if fn == nil {
			rep.Err = fmt.Errorf("function under contract not found: %s (renamed or removed)", k)
			continue
		}
		if err := w.expandRefinements(fn, fs); err != nil {
			rep.Err = err
			continue
		}
		obls, notes, err := w.x.VerifyFunc(fn, fs)
		rep.Obls, rep.Notes, rep.Err = obls, notes, err
		rep.Paths = w.x.vc.paths
	}
	return out
}

func hasProp(props []string, p string) bool {
	for _, q := range props {
		if q == p {
			return true
		}
	}
	return false
}

func specMentions(fs *FuncSpec, prop string) bool {
	if prop == "" || hasProp(fs.Props, prop) {
		return true
	}
	for _, cs := range [][]*Clause{fs.Requires, fs.Ensures, fs.PanicsIf, fs.PanicsIff, fs.ReturnHints} {
		for _, c := range cs {
			if hasProp(c.Props, prop) {
				return true
			}
		}
	}
	for _, ch := range fs.CallHints {
		if hasProp(ch.C.Props, prop) {
			return true
		}
	}
	for _, l := range fs.Loops {
		for _, cs := range [][]*Clause{l.Invariants, l.Hints} {
			for _, c := range cs {
				if hasProp(c.Props, prop) {
					return true
				}
			}
		}
	}
	return false
}

// cmdVerify: developer command: gocv verify [-v] [-t secs] <substring of function key>...
func cmdVerify(args []string) {
	verbose := false
	timeout := 10
	var pats []string
	for i := 0; i < len(args); i++ {
		switch args[i] {
		case "-v":
			verbose = true
		case "-t":
			i++
			fmt.Sscanf(args[i], "%d", &timeout)
		default:
			pats = append(pats, args[i])
		}
	}
	w, err := loadWorld()
	if err != nil {
		fmt.Fprintln(os.Stderr, "error:", err)
		os.Exit(2)
	}
	reps := w.generate(func(fs *FuncSpec) bool {
		if len(pats) == 0 {
			return true
		}
		for _, p := range pats {
			if strings.Contains(fs.Pkg+"."+fs.Name, p) {
				return true
			}
		}
		return false
	})
	var all []*Obligation
	for _, r := range reps {
		all = append(all, r.Obls...)
	}
	all = append(all, w.lemmaObligations(func(l *Lemma) bool {
		if len(pats) == 0 {
			return true
		}
		for _, p := range pats {
			if strings.Contains(l.Pkg+"."+l.Name, p) {
				return true
			}
		}
		return false
	})...)
	dir := "/verif/out/dev"
	os.RemoveAll(dir)
	dischargeAll(w.x.U, all, dir, timeout, false, 12)
	bad := 0
	for _, r := range reps {
		if r.Err != nil {
			fmt.Printf("ERROR %s: %v\n", r.Func, r.Err)
			bad++
		}
		for _, n := range r.Notes {
			fmt.Printf("  note %s: %s\n", r.Func, n)
		}
		fmt.Printf("%s: %d paths, %d obligations\n", r.Func, r.Paths, len(r.Obls))
	}
	retCov := map[string][2]int{}
	for _, o := range all {
		if o.Cover && o.Label == "return" {
			c := retCov[o.Func]
			c[0]++
			if o.Result == "unsat" {
				c[1]++
			}
			retCov[o.Func] = c
		}
	}
	for f, c := range retCov {
		if c[0] > 0 && c[0] == c[1] {
			fmt.Printf("VACUOUS %s: every returning path has contradictory assumptions\n", f)
			bad++
		}
	}
	for _, o := range all {
		if o.Cover && o.Label == "return" {
			continue
		}
		ok := (o.Cover && o.Result != "unsat") || (!o.Cover && o.Result == "unsat")
		if !ok {
			bad++
		}
		if verbose || !ok {
			st := "ok  "
			if !ok {
				st = "FAIL"
			}
			fmt.Printf("%s %-8s %6.2fs %-14s %s  [%s] %s\n", st, o.Result, o.TimeS, o.Solver, o.Name, strings.Join(o.Props, ","), o.File)
			if o.Result == "error" {
				fmt.Printf("     %s\n", truncate(o.Model, 300))
			}
		}
	}
	fmt.Printf("%d obligations, %d not ok\n", len(all), bad)
	if bad > 0 {
		os.Exit(1)
	}
}

// lemmaObligations turns free-standing lemmas into obligations.
func (w *World) lemmaObligations(keep func(l *Lemma) bool) []*Obligation {
	var out []*Obligation
	x := w.x
	for _, lm := range w.db.Lemmas {
		if !keep(lm) {
			continue
		}
		func() {
			defer func() {
				if r := recover(); r != nil {
					if u, ok := r.(unsupported); ok {
						out = append(out, &Obligation{Name: shortPkgName(lm.Pkg) + ".lemma." + lm.Name, Kind: "lemma", Props: lm.Props, Src: lm.Src,
							Goal: TFalse, Result: "error", Model: u.msg})
						return
					}
					panic(r)
				}
			}()
			vc := &VC{spec: &FuncSpec{Props: lm.Props}, initHeap: map[string]*Term{}, allocBase: Var("alloc_0", SInt)}
			x.vc = vc
			x.n = 0
			st := &State{heap: map[string]*Term{}, alloc: vc.allocBase, cells: map[cellKey]*Term{}, globals: map[*ssa.Global]*Term{}, ghost: map[string]*Term{}, freshID: map[string]bool{}}
			vc.entry = st
			env := &Env{x: x, st: st, old: st, vars: map[string]SV{}, pkg: x.pkgByPath[lm.Pkg], allocOld: vc.allocBase, fuelSet: true, fuel: lm.Unfold}
			var as []*Term
			as = append(as, Cmp(">=", vc.allocBase, IntLit(1)))
			for _, b := range lm.Vars {
				t, s := x.resolveType(env, b.T)
				v := Var("l_"+sanitize(b.Name), s)
				if b.T.Text == "int" || b.T.Text == "real" || b.T.Text == "bool" {
					t = nil
				} else {
					as = append(as, x.wf(st, v, t))
				}
				env.vars[b.Name] = SV{T: v, Typ: t}
			}
			for _, r := range lm.Requires {
				t := x.evalBool(env, r)
				as = append(as, env.takeSide()...)
				as = append(as, t)
			}
			for i, e := range lm.Ensures {
				t := x.evalBool(env, e)
				side := env.takeSide()
				name := shortPkgName(lm.Pkg) + ".lemma." + lm.Name
				if len(lm.Ensures) > 1 {
					name += fmt.Sprintf(".%d", i+1)
				}
				out = append(out, &Obligation{Name: name, Func: "lemma " + lm.Name, Kind: "lemma", Label: lm.Name, Props: lm.Props, Src: lm.Src,
					Assumptions: append(append([]*Term{}, as...), side...), Goal: t})
			}
			out = append(out, &Obligation{Name: shortPkgName(lm.Pkg) + ".lemma." + lm.Name + "#cover", Func: "lemma " + lm.Name, Kind: "cover", Props: lm.Props, Src: lm.Src,
				Assumptions: as, Goal: TFalse, Cover: true})
		}()
	}
	return out
}

// expandRefinements adds the instantiated interface method contract to an implementation's contract.
func (w *World) expandRefinements(fn *ssa.Function, fs *FuncSpec) error {
	if len(fs.Refines) == 0 || fs.refExpanded {
		return nil
	}
	fs.refExpanded = true
	for _, rf := range fs.Refines {
		var im *FuncSpec
		for k, v := range w.db.IMeths {
			// k = pkgpath.Iface.Method ; rf.IfaceMethod = pkgshort.Iface.Method
			i := strings.LastIndex(k, "/")
			short := k[i+1:]
			if short == rf.IfaceMethod || strings.ReplaceAll(short, "-", "_") == rf.IfaceMethod {
				im = v
			}
		}
		if im == nil {
			return fmt.Errorf("refines: no interface method contract %q", rf.IfaceMethod)
		}
		// parameter renaming: interface contract names -> implementation names (positional), self -> receiver
		idents := map[string]string{}
		params := fn.Params
		if fn.Signature.Recv() != nil && len(params) > 0 {
			idents["self"] = "iface_self"
			params = params[1:]
		}
		imName := rf.IfaceMethod[strings.LastIndex(rf.IfaceMethod, ".")+1:]
		// find interface method parameter names from the type
		var sig *types.Signature
		if fn.Signature.Recv() != nil {
			ms := w.prog.MethodSets.MethodSet(fn.Signature.Recv().Type())
			_ = ms
		}
		sig = fn.Signature
		_ = sig
		// positional names: the interface contract uses the interface's declared parameter names; look them up
		if names := w.ifaceParamNames(rf.IfaceMethod); names != nil {
			off := len(fn.Params) - len(params)
			for i, n := range names {
				if i < len(params) && n != "" && n != "_" {
					pn := params[i].Name()
					if pn == "_" || pn == "" {
						pn = fmt.Sprintf("blank%d", i+off)
					}
					idents[n] = pn
				}
			}
		}
		_ = imName
		label := func(c *Clause, i int) string {
			l := c.Label
			if l == "" {
				l = fmt.Sprintf("%d", i+1)
			}
			return "refines." + sanitize(imName) + "." + l
		}
		for i, c := range im.Requires {
			fs.Requires = append(fs.Requires, &Clause{Kind: "requires", Label: label(c, i), Props: c.Props, E: substExpr(c.E, rf.Subst, idents), Src: c.Src + " (instantiated at " + rf.Src + ")"})
		}
		for i, c := range im.Ensures {
			fs.Ensures = append(fs.Ensures, &Clause{Kind: "ensures", Label: label(c, i), Props: c.Props, Reveal: c.Reveal, Assumed: c.Assumed, E: substExpr(c.E, rf.Subst, idents), Src: c.Src + " (instantiated at " + rf.Src + ")"})
		}
	}
	return nil
}

// ifaceParamNames returns the parameter names an interface declares for a method ("pkg.Iface.Method").
func (w *World) ifaceParamNames(ref string) []string {
	parts := strings.Split(ref, ".")
	if len(parts) != 3 {
		return nil
	}
	for _, p := range w.prog.AllPackages() {
		if p.Pkg.Name() != parts[0] && shortPkgName(p.Pkg.Path()) != parts[0] {
			continue
		}
		obj, ok := p.Pkg.Scope().Lookup(parts[1]).(*types.TypeName)
		if !ok {
			continue
		}
		it, ok := obj.Type().Underlying().(*types.Interface)
		if !ok {
			continue
		}
		for i := 0; i < it.NumMethods(); i++ {
			m := it.Method(i)
			if m.Name() == parts[2] {
				sig := m.Type().(*types.Signature)
				var names []string
				for j := 0; j < sig.Params().Len(); j++ {
					names = append(names, sig.Params().At(j).Name())
				}
				return names
			}
		}
	}
	return nil
}
