package main

// Instruction semantics.

import (
	"fmt"
	"os"
	"strings"
	"go/constant"
	"go/token"
	"go/types"
	"math/big"

	"golang.org/x/tools/go/ssa"
)

func realOfConstant(v constant.Value) *Term {
	switch v.Kind() {
	case constant.Int:
		s := v.ExactString()
		r, ok := new(big.Rat).SetString(s)
		if !ok {
			fail("bad int constant %s", s)
		}
		return RealLitRat(r)
	case constant.Float:
		// exact rational if possible
		if r, ok := constant.Val(v).(*big.Rat); ok {
			return RealLitRat(r)
		}
		if f, ok := constant.Val(v).(*big.Float); ok {
			r, _ := f.Rat(nil)
			return RealLitRat(r)
		}
		s := v.ExactString()
		if r, ok := new(big.Rat).SetString(s); ok {
			return RealLitRat(r)
		}
	}
	fail("bad float constant %s", v)
	return nil
}

// step executes one instruction. Returns (successors, continueSamePath).
func (x *Exec) step(st *State, fr *Frame, ins ssa.Instruction) ([]*State, bool) {
	set := func(v ssa.Value, r Val) { fr.vals[v] = r }
	adv := func() ([]*State, bool) { fr.idx++; return nil, true }
	switch ins := ins.(type) {
	case *ssa.DebugRef:
		return adv()
	case *ssa.Alloc:
		if fr.order == nil {
			fr.order = map[ssa.Value]int{}
		}
		fr.order[ins] = len(fr.order) + 1
		t := deref(ins.Type())
		if arr, ok := types.Unalias(t).Underlying().(*types.Array); ok {
			id := x.allocID(st)
			comp, cs := x.elemComp(arr.Elem())
			h := x.heapGet(st, comp, cs)
			es := x.TI.SortOf(arr.Elem())
			st.heap[comp] = Store(h, id, x.zeroRow(es, x.TI.Zero(arr.Elem())))
			set(ins, Val{Loc: &Loc{kind: locArr, addr: id, root: arr.Elem(), n: arr.Len()}})
			return adv()
		}
		if x.info(fr.fn).isCell[ins] {
			key := cellKey{fr.id, ins}
			st.cells[key] = x.TI.Zero(t)
			set(ins, Val{Loc: &Loc{kind: locCell, cell: key, root: t}})
			return adv()
		}
		id := x.allocID(st)
		s := x.TI.SortOf(t)
		h := x.heapGet(st, hpComp(s), hpSort(s))
		st.heap[hpComp(s)] = Store(h, id, x.TI.Zero(t))
		set(ins, Val{Loc: &Loc{kind: locHeap, addr: id, root: t}})
		return adv()
	case *ssa.Store:
		l := x.loc(st, x.val(st, fr, ins.Addr), ins.Addr.Type())
		v := x.term(st, x.val(st, fr, ins.Val), ins.Val.Type())
		x.store(st, l, v, "store")
		return adv()
	case *ssa.UnOp:
		xv := x.val(st, fr, ins.X)
		switch ins.Op {
		case token.MUL: // load
			if xv.T == nil && xv.Loc == nil && os.Getenv("GOCV_TRACE") != "" {
				fmt.Fprintf(os.Stderr, "TRACE load of empty value: %s = %s in %s\n", ins.Name(), ins.String(), fr.fn.Name())
			}
			l := x.loc(st, xv, ins.X.Type())
			if l.kind == locHeap || l.kind == locElem {
				// nil dereference is a runtime panic; normal paths assume non-nil
				if l.kind == locHeap {
					st.assume(Not(Eq(l.addr, IntLit(0)))) // nil dereference: not checked (stated assumption)
				}
			}
			v := x.load(st, l)
			st.assume(x.wf(st, v, ins.Type()))
			set(ins, Val{T: v})
		case token.NOT:
			set(ins, Val{T: Not(xv.T)})
		case token.SUB:
			if xv.T.Sort == SReal {
				set(ins, Val{T: App("-", SReal, xv.T)})
			} else {
				set(ins, Val{T: Arith("-", IntLit(0), xv.T)})
			}
		default:
			fail("unary operator %s", ins.Op)
		}
		return adv()
	case *ssa.BinOp:
		a := x.term(st, x.val(st, fr, ins.X), ins.X.Type())
		b := x.term(st, x.val(st, fr, ins.Y), ins.Y.Type())
		set(ins, Val{T: x.binop(st, ins, ins.Op, a, b, ins.X.Type())})
		return adv()
	case *ssa.FieldAddr:
		l := x.loc(st, x.val(st, fr, ins.X), ins.X.Type())
		set(ins, Val{Loc: l.withField(ins.Field)})
		return adv()
	case *ssa.Field:
		v := x.val(st, fr, ins.X).T
		s := x.TI.SortOf(ins.X.Type())
		set(ins, Val{T: x.TI.FieldSel(s, ins.Field, v)})
		return adv()
	case *ssa.IndexAddr:
		xv := x.val(st, fr, ins.X)
		i := x.val(st, fr, ins.Index).T
		switch xt := types.Unalias(ins.X.Type()).Underlying().(type) {
		case *types.Slice:
			s := xv.T
			x.runtimeCheck(st, "index", And(Cmp(">=", i, IntLit(0)), Cmp("<", i, SlLen(s))), ins)
			set(ins, Val{Loc: &Loc{kind: locElem, addr: SlArr(s), idx: Sidx(SlOff(s), i), root: xt.Elem()}})
		case *types.Pointer:
			if xv.Loc == nil || xv.Loc.kind != locArr {
				fail("index address of pointer to array that is not a local temporary")
			}
			x.runtimeCheck(st, "index", And(Cmp(">=", i, IntLit(0)), Cmp("<", i, IntLit(xv.Loc.n))), ins)
			set(ins, Val{Loc: &Loc{kind: locElem, addr: xv.Loc.addr, idx: i, root: xv.Loc.root}})
		default:
			fail("IndexAddr on %s", ins.X.Type())
		}
		return adv()
	case *ssa.Index:
		fail("Index on array/string value")
	case *ssa.Slice:
		return x.stepSlice(st, fr, ins)
	case *ssa.MakeSlice:
		ln := x.val(st, fr, ins.Len).T
		cp := x.val(st, fr, ins.Cap).T
		x.runtimeCheck(st, "makeslice", And(Cmp(">=", ln, IntLit(0)), Cmp("<=", ln, cp)), ins)
		id := x.allocID(st)
		el := types.Unalias(ins.Type()).Underlying().(*types.Slice).Elem()
		comp, cs := x.elemComp(el)
		es := x.TI.SortOf(el)
		h := x.heapGet(st, comp, cs)
		st.heap[comp] = Store(h, id, x.zeroRow(es, x.TI.Zero(el)))
		set(ins, Val{T: MkSlice(id, IntLit(0), ln, cp)})
		return adv()
	case *ssa.MakeMap:
		mt := types.Unalias(ins.Type()).Underlying().(*types.Map)
		ks, vs := x.TI.SortOf(mt.Key()), x.TI.SortOf(mt.Elem())
		id := x.allocID(st)
		md := x.heapGet(st, mdComp(ks, vs), mdSort(ks))
		st.heap[mdComp(ks, vs)] = Store(md, id, App("(as const "+string(ArraySort(ks, SBool))+")", ArraySort(ks, SBool), TFalse))
		set(ins, Val{T: id})
		return adv()
	case *ssa.MapUpdate:
		m := x.val(st, fr, ins.Map).T
		k := x.term(st, x.val(st, fr, ins.Key), ins.Key.Type())
		v := x.term(st, x.val(st, fr, ins.Value), ins.Value.Type())
		mt := types.Unalias(ins.Map.Type()).Underlying().(*types.Map)
		ks, vs := x.TI.SortOf(mt.Key()), x.TI.SortOf(mt.Elem())
		x.runtimeCheck(st, "nilmap", Not(Eq(m, IntLit(0))), ins)
		x.frameCheck(st, m, "mapupdate")
		md := x.heapGet(st, mdComp(ks, vs), mdSort(ks))
		mv := x.heapGet(st, mvComp(ks, vs), mvSort(ks, vs))
		st.heap[mdComp(ks, vs)] = Store(md, m, Store(Select(md, m), k, TTrue))
		st.heap[mvComp(ks, vs)] = Store(mv, m, Store(Select(mv, m), k, v))
		return adv()
	case *ssa.Lookup:
		mt, ok := types.Unalias(ins.X.Type()).Underlying().(*types.Map)
		if !ok {
			fail("Lookup on string")
		}
		m := x.val(st, fr, ins.X).T
		k := x.term(st, x.val(st, fr, ins.Index), ins.Index.Type())
		ks, vs := x.TI.SortOf(mt.Key()), x.TI.SortOf(mt.Elem())
		md := x.heapGet(st, mdComp(ks, vs), mdSort(ks))
		mv := x.heapGet(st, mvComp(ks, vs), mvSort(ks, vs))
		present := And(Not(Eq(m, IntLit(0))), Select(Select(md, m), k))
		val := Ite(present, Select(Select(mv, m), k), x.TI.Zero(mt.Elem()))
		st.assume(Implies(present, x.wf(st, Select(Select(mv, m), k), mt.Elem())))
		if ins.CommaOk {
			set(ins, Val{Tuple: []Val{{T: val}, {T: present}}})
		} else {
			set(ins, Val{T: val})
		}
		return adv()
	case *ssa.Extract:
		tv := x.val(st, fr, ins.Tuple)
		if tv.Tuple == nil {
			fail("extract from non-tuple")
		}
		set(ins, tv.Tuple[ins.Index])
		return adv()
	case *ssa.MakeInterface:
		v := x.term(st, x.val(st, fr, ins.X), ins.X.Type())
		set(ins, Val{T: x.TI.Box(ins.X.Type(), v)})
		return adv()
	case *ssa.ChangeInterface:
		set(ins, x.val(st, fr, ins.X))
		return adv()
	case *ssa.ChangeType:
		set(ins, x.val(st, fr, ins.X))
		return adv()
	case *ssa.Convert:
		set(ins, Val{T: x.convert(x.val(st, fr, ins.X).T, ins.X.Type(), ins.Type())})
		return adv()
	case *ssa.TypeAssert:
		return x.stepTypeAssert(st, fr, ins)
	case *ssa.MakeClosure:
		var bs []Val
		for _, b := range ins.Bindings {
			bs = append(bs, x.val(st, fr, b))
		}
		set(ins, Val{Clo: &Closure{fn: ins.Fn.(*ssa.Function), bindings: bs}})
		return adv()
	case *ssa.Range:
		mt, ok := types.Unalias(ins.X.Type()).Underlying().(*types.Map)
		if !ok {
			fail("range over string")
		}
		m := x.val(st, fr, ins.X).T
		ks, vs := x.TI.SortOf(mt.Key()), x.TI.SortOf(mt.Elem())
		key := fmt.Sprintf("visited:%d:%s", fr.id, ins.Name())
		st.ghost[key] = App("(as const "+string(ArraySort(ks, SBool))+")", ArraySort(ks, SBool), TFalse)
		md := x.heapGet(st, mdComp(ks, vs), mdSort(ks))
		st.ghost["dom:"+key] = Ite(Eq(m, IntLit(0)), App("(as const "+string(ArraySort(ks, SBool))+")", ArraySort(ks, SBool), TFalse), Select(md, m))
		set(ins, Val{T: m})
		return adv()
	case *ssa.Next:
		return x.stepNext(st, fr, ins)
	case *ssa.Phi:
		// handled at block entry
		return adv()
	case *ssa.Jump:
		x.gotoBlock(st, fr, fr.block.Succs[0])
		return nil, true
	case *ssa.If:
		c := x.val(st, fr, ins.Cond).T
		if c.IsTrue() {
			x.gotoBlock(st, fr, fr.block.Succs[0])
			return nil, true
		}
		if c.IsFalse() {
			x.gotoBlock(st, fr, fr.block.Succs[1])
			return nil, true
		}
		st2 := st.clone()
		st.assume(c)
		x.gotoBlock(st, fr, fr.block.Succs[0])
		fr2 := st2.top()
		st2.assume(Not(c))
		x.gotoBlock(st2, fr2, fr2.block.Succs[1])
		return []*State{st2, st}, false
	case *ssa.Return:
		var rs []Val
		for _, r := range ins.Results {
			rs = append(rs, x.val(st, fr, r))
		}
		return x.doReturn(st, fr, rs, ins)
	case *ssa.Panic:
		return x.doPanic(st, "panic", ins.Pos())
	case *ssa.RunDefers:
		return adv()
	case *ssa.Call:
		return x.stepCall(st, fr, ins)
	case *ssa.Defer, *ssa.Go, *ssa.Select, *ssa.Send, *ssa.MakeChan:
		fail("unsupported instruction %T", ins)
	}
	fail("unsupported instruction %T", ins)
	return nil, false
}

var rtSweepAll = os.Getenv("GOCV_RTSWEEP") != "" // development: try "indexsafe" on every function under contract

// runtimeCheck: a condition whose failure is a runtime panic.
func (x *Exec) runtimeCheck(st *State, what string, ok *Term, ins ssa.Instruction) {
	if ok.IsTrue() {
		return
	}
	if x.vc.trackPanics && len(st.frames) >= 1 {
		// the failing branch is a panic: with panics_if/iff/nopanic clauses it must be justified
		x.panicObligation(st, "safe."+what, ok, x.prog.Fset.Position(ins.Pos()).String())
	} else if (x.vc.spec.IndexSafe || rtSweepAll) && what != "typeassert" && len(st.frames) >= 1 {
		// "indexsafe": runtime errors nobody intends (index / slice bounds, negative make, integer division by zero, write to
		// a nil map) are excluded even where the contract says nothing else about panics
		x.oblige(st, "rt."+what, "", nil, ok, x.prog.Fset.Position(ins.Pos()).String())
	}
	st.assume(ok)
}

// panicObligation: on the branch where `ok` fails the function panics.
func (x *Exec) panicObligation(st *State, name string, ok *Term, src string) {
	spec := x.vc.spec
	if spec.NoPanic {
		x.oblige(st, name, "", nil, ok, src)
		return
	}
	conds := x.panicConds(st)
	if conds == nil {
		return
	}
	x.oblige(st, name, "", nil, Or(ok, Or(conds...)), src)
}

// panicConds evaluates the declared panic conditions in the entry state.
func (x *Exec) panicConds(st *State) []*Term {
	spec := x.vc.spec
	if len(spec.PanicsIf) == 0 && len(spec.PanicsIff) == 0 {
		return nil
	}
	env := x.entryEnvOld()
	var out []*Term
	for _, c := range append(append([]*Clause{}, spec.PanicsIf...), spec.PanicsIff...) {
		out = append(out, x.evalBool(env, c.E))
		st.assume(And(env.takeSide()...))
	}
	return out
}

func (x *Exec) doPanic(st *State, what string, pos token.Pos) ([]*State, bool) {
	spec := x.vc.spec
	src := x.prog.Fset.Position(pos).String()
	if len(st.frames) == 1 {
		x.pendingReplay = x.replayInfo(st, nil, "panics")
	}
	if spec.NoPanic {
		x.oblige(st, "safe.nopanic", "", nil, TFalse, src)
	} else if conds := x.panicConds(st); conds != nil {
		x.oblige(st, "panics.justified", "", nil, Or(conds...), src)
	}
	x.pendingReplay = nil
	return nil, false
}

func (x *Exec) binop(st *State, ins ssa.Instruction, op token.Token, a, b *Term, t types.Type) *Term {
	sort := a.Sort
	switch op {
	case token.ADD:
		if sort == SStr {
			x.U.Declare("str_concat", SStr, SStr, SStr)
			return App("str_concat", SStr, a, b)
		}
		return Arith("+", a, b)
	case token.SUB:
		return Arith("-", a, b)
	case token.MUL:
		return Arith("*", a, b)
	case token.QUO:
		if sort == SInt {
			x.runtimeCheck(st, "div", Not(Eq(b, IntLit(0))), ins)
		}
		return Arith("/", a, b)
	case token.REM:
		x.runtimeCheck(st, "div", Not(Eq(b, IntLit(0))), ins)
		return Arith("%", a, b)
	case token.EQL:
		return x.eqTerm(a, b)
	case token.NEQ:
		return Not(x.eqTerm(a, b))
	case token.LSS, token.LEQ, token.GTR, token.GEQ:
		o := map[token.Token]string{token.LSS: "<", token.LEQ: "<=", token.GTR: ">", token.GEQ: ">="}[op]
		if sort == SStr {
			lt := x.strLt()
			switch op {
			case token.LSS:
				return App(lt, SBool, a, b)
			case token.GTR:
				return App(lt, SBool, b, a)
			case token.LEQ:
				return Not(App(lt, SBool, b, a))
			default:
				return Not(App(lt, SBool, a, b))
			}
		}
		return Cmp(o, a, b)
	case token.LAND:
		return And(a, b)
	case token.LOR:
		return Or(a, b)
	}
	fail("binary operator %s", op)
	return nil
}

func (x *Exec) eqTerm(a, b *Term) *Term {
	if a.Sort == SSlice || b.Sort == SSlice {
		// only comparison with nil is legal Go
		if b.String() == nilSlice.String() || (b.Kind == kLit) {
			return Eq(SlArr(a), IntLit(0))
		}
		if a.String() == nilSlice.String() {
			return Eq(SlArr(b), IntLit(0))
		}
		return Eq(SlArr(a), IntLit(0))
	}
	if a.Sort == SIface && b.Sort != SIface {
		return Eq(x.TI.IfaceTag(a), IntLit(0))
	}
	return Eq(a, b)
}

// strLt declares the strict total order on strings.
func (x *Exec) strLt() string {
	if _, ok := x.U.funcs["str_lt"]; !ok {
		x.U.Declare("str_lt", SBool, SStr, SStr)
		a, b, c := Var("sa", SStr), Var("sb", SStr), Var("sc", SStr)
		lt := func(p, q *Term) *Term { return App("str_lt", SBool, p, q) }
		x.U.AddAxiom("str_lt", Forall([]*Term{a}, Not(lt(a, a))))
		x.U.AddAxiom("str_lt", Forall([]*Term{a, b, c}, Implies(And(lt(a, b), lt(b, c)), lt(a, c))))
		x.U.AddAxiom("str_lt", Forall([]*Term{a, b}, Or(lt(a, b), lt(b, a), Eq(a, b))))
	}
	return "str_lt"
}

func (x *Exec) convert(v *Term, from, to types.Type) *Term {
	fs, ts := x.TI.SortOf(from), x.TI.SortOf(to)
	if fs == SInt && ts == SInt {
		// integers are mathematical; a conversion that can lose values (narrower, or signed <-> unsigned) is the identity only
		// inside the target's range and an uninterpreted wrap outside it
		fb, ok1 := types.Unalias(from).Underlying().(*types.Basic)
		tb, ok2 := types.Unalias(to).Underlying().(*types.Basic)
		if ok1 && ok2 && fb.Info()&types.IsInteger != 0 && tb.Info()&types.IsInteger != 0 && fb.Info()&types.IsUntyped == 0 {
			bits := func(b *types.Basic) (int, bool) {
				switch b.Kind() {
				case types.Int8:
					return 8, true
				case types.Int16:
					return 16, true
				case types.Int32:
					return 32, true
				case types.Int64, types.Int:
					return 64, true
				case types.Uint8:
					return 8, false
				case types.Uint16:
					return 16, false
				case types.Uint32:
					return 32, false
				case types.Uint64, types.Uint, types.Uintptr:
					return 64, false
				}
				return 64, true
			}
			fbits, fsigned := bits(fb)
			tbits, tsigned := bits(tb)
			loses := tbits < fbits || (fsigned != tsigned && !(fsigned == false && tsigned && tbits > fbits))
			if loses {
				name := "wrap_" + tb.Name()
				if _, ok := x.U.funcs[name]; !ok {
					x.U.Declare(name, SInt, SInt)
					lo, hi := new(big.Int), new(big.Int)
					if tsigned {
						lo.Lsh(big.NewInt(1), uint(tbits-1))
						lo.Neg(lo)
						hi.Lsh(big.NewInt(1), uint(tbits-1))
						hi.Sub(hi, big.NewInt(1))
					} else {
						hi.Lsh(big.NewInt(1), uint(tbits))
						hi.Sub(hi, big.NewInt(1))
					}
					w := Var("wv", SInt)
					lit := func(b *big.Int) *Term { return BigIntLit(b) }
					inr := And(Cmp(">=", w, lit(lo)), Cmp("<=", w, lit(hi)))
					x.U.AddAxiom(name, Forall([]*Term{w}, And(Implies(inr, Eq(App(name, SInt, w), w)),
						Cmp(">=", App(name, SInt, w), lit(lo)), Cmp("<=", App(name, SInt, w), lit(hi))), []*Term{App(name, SInt, w)}))
				}
				return App(name, SInt, v)
			}
		}
	}
	switch {
	case fs == ts:
		return v
	case fs == SInt && ts == SReal:
		return ToReal(v)
	case fs == SReal && ts == SInt:
		return App("trunc", SInt, v)
	}
	fail("conversion %s -> %s", from, to)
	return nil
}

func (x *Exec) stepSlice(st *State, fr *Frame, ins *ssa.Slice) ([]*State, bool) {
	xv := x.val(st, fr, ins.X)
	var arr, off, ln, cp *Term
	switch types.Unalias(ins.X.Type()).Underlying().(type) {
	case *types.Slice:
		s := xv.T
		arr, off, ln, cp = SlArr(s), SlOff(s), SlLen(s), SlCap(s)
	case *types.Pointer:
		if xv.Loc == nil || xv.Loc.kind != locArr {
			fail("slicing a pointer to array that is not a local temporary")
		}
		arr, off, ln, cp = xv.Loc.addr, IntLit(0), IntLit(xv.Loc.n), IntLit(xv.Loc.n)
	default:
		fail("slice of %s", ins.X.Type())
	}
	lo := IntLit(0)
	if ins.Low != nil {
		lo = x.val(st, fr, ins.Low).T
	}
	hi := ln
	if ins.High != nil {
		hi = x.val(st, fr, ins.High).T
	}
	mx := cp
	if ins.Max != nil {
		mx = x.val(st, fr, ins.Max).T
	}
	x.runtimeCheck(st, "slice", And(Cmp("<=", IntLit(0), lo), Cmp("<=", lo, hi), Cmp("<=", hi, mx), Cmp("<=", mx, cp)), ins)
	fr.vals[ins] = Val{T: MkSlice(arr, Arith("+", off, lo), Arith("-", hi, lo), Arith("-", mx, lo))}
	fr.idx++
	return nil, true
}

func (x *Exec) stepTypeAssert(st *State, fr *Frame, ins *ssa.TypeAssert) ([]*State, bool) {
	v := x.val(st, fr, ins.X).T
	at := types.Unalias(ins.AssertedType)
	if _, isIface := at.Underlying().(*types.Interface); isIface {
		// assertion to an interface type: keep the value; success is not decided
		ok := x.freshVar("assert_ok", SBool)
		if ins.CommaOk {
			fr.vals[ins] = Val{Tuple: []Val{{T: v}, {T: ok}}}
		} else {
			st.assume(ok)
			fr.vals[ins] = Val{T: v}
		}
		fr.idx++
		return nil, true
	}
	is := Eq(x.TI.IfaceTag(v), IntLit(int64(x.TI.Tag(at))))
	un := x.TI.Unbox(at, v)
	if ins.CommaOk {
		res := Ite(is, un, x.TI.Zero(at))
		st.assume(Implies(is, x.wf(st, un, at)))
		fr.vals[ins] = Val{Tuple: []Val{{T: res}, {T: is}}}
	} else {
		x.runtimeCheck(st, "typeassert", is, ins)
		st.assume(x.wf(st, un, at))
		fr.vals[ins] = Val{T: un}
	}
	fr.idx++
	return nil, true
}

func (x *Exec) stepNext(st *State, fr *Frame, ins *ssa.Next) ([]*State, bool) {
	if ins.IsString {
		fail("range over string")
	}
	rg := ins.Iter.(*ssa.Range)
	mt := types.Unalias(rg.X.Type()).Underlying().(*types.Map)
	ks, vs := x.TI.SortOf(mt.Key()), x.TI.SortOf(mt.Elem())
	key := fmt.Sprintf("visited:%d:%s", fr.id, rg.Name())
	visited := st.ghost[key]
	if visited == nil {
		fail("Next without Range state")
	}
	m := x.val(st, fr, rg).T
	md := x.heapGet(st, mdComp(ks, vs), mdSort(ks))
	mv := x.heapGet(st, mvComp(ks, vs), mvSort(ks, vs))
	dom := Ite(Eq(m, IntLit(0)), App("(as const "+string(ArraySort(ks, SBool))+")", ArraySort(ks, SBool), TFalse), Select(md, m))
	ok := x.freshVar("next_ok", SBool)
	k := x.freshVar("next_k", ks)
	v := Select(Select(mv, m), k)
	st.assume(Implies(ok, And(Select(dom, k), Not(Select(visited, k)))))
	q := Var("nk", ks)
	st.assume(Implies(Not(ok), Forall([]*Term{q}, Implies(Select(dom, q), Select(visited, q)), []*Term{Select(dom, q)})))
	st.assume(Implies(ok, x.wf(st, v, mt.Elem())))
	st.ghost[key] = Ite(ok, Store(visited, k, TTrue), visited)
	fr.vals[ins] = Val{Tuple: []Val{{T: ok}, {T: k}, {T: v}}}
	fr.idx++
	return nil, true
}

// zeroRow: an array whose every element is the zero value.  A constant-array literal is used when the zero value is an
// SMT value; otherwise (strings / interfaces inside) a named array with a defining axiom (cvc5 rejects non-value const arrays).
func (x *Exec) zeroRow(es Sort, zero *Term) *Term {
	as := ArraySort(SInt, es)
	txt := zero.String()
	if !strings.Contains(txt, "strlit_") && !strings.Contains(txt, "iface_nil") {
		return App("(as const "+string(as)+")", as, zero)
	}
	name := "zerorow_" + mangleSort(es)
	if _, ok := x.U.funcs[name]; !ok {
		x.U.Declare(name, as)
		k := Var("zk", SInt)
		x.U.AddAxiom(name, Forall([]*Term{k}, Eq(Select(App(name, as), k), zero), []*Term{Select(App(name, as), k)}))
	}
	return App(name, as)
}
