package main

// Assumed contracts ("models") of functions outside the repository.  Every entry here is part of
// the trusted base and is listed in the evidence.

import (
	"go/types"
	"strings"

	"golang.org/x/tools/go/ssa"
)

type extModel struct {
	name   string
	doc    string
	writes []int // indices of arguments whose referenced object may be written
	apply  func(x *Exec, st *State, fr *Frame, call *ssa.Call, args []Val) ([]*State, bool)
}

var extModels map[string]*extModel

func pureOpaque(hint string) func(x *Exec, st *State, fr *Frame, call *ssa.Call, args []Val) ([]*State, bool) {
	return func(x *Exec, st *State, fr *Frame, call *ssa.Call, args []Val) ([]*State, bool) {
		return x.opaqueResult(st, fr, call, hint)
	}
}

func realFn(f func(x *Exec, st *State, a []*Term) *Term) func(x *Exec, st *State, fr *Frame, call *ssa.Call, args []Val) ([]*State, bool) {
	return func(x *Exec, st *State, fr *Frame, call *ssa.Call, args []Val) ([]*State, bool) {
		var ts []*Term
		for _, a := range args {
			ts = append(ts, a.T)
		}
		fr.vals[call] = Val{T: f(x, st, ts)}
		fr.idx++
		return nil, true
	}
}

func init() {
	extModels = map[string]*extModel{}
	add := func(name, doc string, apply func(x *Exec, st *State, fr *Frame, call *ssa.Call, args []Val) ([]*State, bool), writes ...int) {
		extModels[name] = &extModel{name: name, doc: doc, apply: apply, writes: writes}
	}
	for _, n := range []string{"fmt.Errorf", "fmt.Sprintf", "fmt.Sprint", "fmt.Sprintln", "errors.New"} {
		add(n, "pure, opaque result, does not panic", pureOpaque("fmt"))
	}
	for _, n := range []string{"fmt.Println", "fmt.Printf", "log.Println", "log.Printf", "(*log.Logger).Println", "(*log.Logger).Printf"} {
		add(n, "no effect on program state", pureOpaque("io"))
	}
	add("math.Abs", "|x| over the reals", realFn(func(x *Exec, st *State, a []*Term) *Term { return App("rabs", SReal, a[0]) }))
	add("math.Min", "min over the reals", realFn(func(x *Exec, st *State, a []*Term) *Term { return App("rmin", SReal, a[0], a[1]) }))
	add("math.Max", "max over the reals", realFn(func(x *Exec, st *State, a []*Term) *Term { return App("rmax", SReal, a[0], a[1]) }))
	add("math.Floor", "floor over the reals", realFn(func(x *Exec, st *State, a []*Term) *Term { return ToReal(App("to_int", SInt, a[0])) }))
	add("math.Exp", "uninterpreted exp with exp(0)=1, exp>0, strictly increasing", realFn(func(x *Exec, st *State, a []*Term) *Term { return x.mathFn("exp", a[0]) }))
	add("math.Round", "uninterpreted round, weakly monotone", realFn(func(x *Exec, st *State, a []*Term) *Term { return x.mathFn("round", a[0]) }))
	add("math.Pow", "uninterpreted", realFn(func(x *Exec, st *State, a []*Term) *Term {
		x.U.Declare("math_pow", SReal, SReal, SReal)
		return App("math_pow", SReal, a[0], a[1])
	}))
	add("strings.HasPrefix", "uninterpreted predicate", realFn(func(x *Exec, st *State, a []*Term) *Term {
		x.U.Declare("str_has_prefix", SBool, SStr, SStr)
		return App("str_has_prefix", SBool, a[0], a[1])
	}))
	add("strconv.Itoa", "uninterpreted injective-by-assumption function", realFn(func(x *Exec, st *State, a []*Term) *Term {
		x.U.Declare("str_itoa", SStr, SInt)
		return App("str_itoa", SStr, a[0])
	}))
	add("strings.TrimSpace", "uninterpreted function of the argument", realFn(func(x *Exec, st *State, a []*Term) *Term {
		x.U.Declare("str_trim", SStr, SStr)
		return App("str_trim", SStr, a[0])
	}))
	add("strings.Compare", "sign of the string order", realFn(func(x *Exec, st *State, a []*Term) *Term {
		lt := x.strLt()
		return Ite(App(lt, SBool, a[0], a[1]), IntLit(-1), Ite(App(lt, SBool, a[1], a[0]), IntLit(1), IntLit(0)))
	}))
	add("strings.Join", "opaque function of the slice contents", pureOpaque("join"))
	add("strings.Split", "opaque contents; the result is a newly allocated slice", func(x *Exec, st *State, fr *Frame, call *ssa.Call, args []Val) ([]*State, bool) {
		pre := st.alloc
		succ, ok := x.opaqueResult(st, fr, call, "split")
		if r := fr.vals[call]; r.T != nil && r.T.Sort == SSlice {
			st.assume(Cmp(">=", SlArr(r.T), pre))
			st.assume(Cmp("<", SlArr(r.T), st.alloc))
			st.assume(Eq(SlOff(r.T), IntLit(0)))
		}
		return succ, ok
	})
	add("(*math/rand.Rand).Float64", "value in [0,1); generator state private", func(x *Exec, st *State, fr *Frame, call *ssa.Call, args []Val) ([]*State, bool) {
		v := x.freshVar("rand", SReal)
		st.assume(And(Cmp(">=", v, RealLitStr("0")), Cmp("<", v, RealLitStr("1"))))
		fr.vals[call] = Val{T: v}
		fr.idx++
		return nil, true
	})
	add("math/rand.NewSource", "opaque", pureOpaque("randsrc"))
	add("math/rand.New", "opaque", pureOpaque("randnew"))
	add("github.com/mitchellh/mapstructure.Decode", "writes only through its target pointer", func(x *Exec, st *State, fr *Frame, call *ssa.Call, args []Val) ([]*State, bool) {
		fail("mapstructure.Decode must be reached through utils.DecodeToStruct with a contract")
		return nil, false
	})
	add("github.com/Azbesciak/RealDecisionMaker/lib/utils.DecodeToStruct", "mapstructure.Decode behind utils.DecodeToStruct: may panic; writes only the object its target pointer refers to (new content unconstrained); allocates", func(x *Exec, st *State, fr *Frame, call *ssa.Call, args []Val) ([]*State, bool) {
		tv := args[1].T
		if tv == nil || tv.Kind != kApp || !strings.HasPrefix(tv.Op, "box_") {
			// the target is an interface value whose dynamic type is not known here (the blank parameter object a source or
			// function object handed out): assumed to write only that object, which no contract of the caller reads
			x.note("DecodeToStruct into an interface value of unknown dynamic type: assumed to write only the object it refers to")
			x.bumpAlloc(st)
			fr.vals[call] = Val{}
			fr.idx++
			return nil, true
		}
		var pt types.Type
		for _, tt := range x.TI.tagTypes {
			if x.TI.boxName(tt) == tv.Op {
				pt = tt
			}
		}
		ptr, ok := types.Unalias(pt).Underlying().(*types.Pointer)
		if !ok {
			fail("DecodeToStruct: target is not a pointer")
		}
		addr := tv.Args[0]
		x.frameCheck(st, addr, "call.DecodeToStruct")
		x.bumpAlloc(st)
		s := x.TI.SortOf(ptr.Elem())
		h := x.heapGet(st, hpComp(s), hpSort(s))
		nv := x.freshVar("decoded", s)
		st.assume(x.wf(st, nv, ptr.Elem()))
		// scalar top-level fields: a key present in the source overwrites the field, an absent key leaves it as it was
		// (mapstructure's default behaviour); what "present" and the decoded value are is left uninterpreted
		if stt, ok := types.Unalias(ptr.Elem()).Underlying().(*types.Struct); ok && args[0].T != nil && args[0].T.Sort == SIface {
			oldv := Select(h, addr)
			for i := 0; i < stt.NumFields(); i++ {
				fs := x.TI.SortOf(stt.Field(i).Type())
				if fs != SReal && fs != SInt && fs != SBool && fs != SStr {
					continue
				}
				if _, isPtr := types.Unalias(stt.Field(i).Type()).Underlying().(*types.Pointer); isPtr {
					continue
				}
				if _, isMap := types.Unalias(stt.Field(i).Type()).Underlying().(*types.Map); isMap {
					continue
				}
				has, val := x.decodedTerms(args[0].T, stt.Field(i).Name(), fs)
				st.assume(Eq(x.TI.FieldSel(s, i, nv), Ite(has, val, x.TI.FieldSel(s, i, oldv))))
			}
		}
		st.heap[hpComp(s)] = Store(h, addr, nv)
		// write back if the target was a materialised local
		for _, m := range st.mats {
			if m.addr.String() == addr.String() {
				x.store(st, m.loc, nv, "call.DecodeToStruct.writeback")
			}
		}
		fr.vals[call] = Val{}
		fr.idx++
		return nil, true
	}, 1)
	add("sort.Float64s", "sorts the slice ascending in place; result is a permutation", modelSortBasic(SReal, false), 0)
	add("sort.Strings", "sorts the slice ascending in place; result is a permutation", modelSortBasic(SStr, true), 0)
	add("sort.Ints", "sorts the slice ascending in place; result is a permutation", modelSortBasic(SInt, false), 0)
}

// modelSortLess: sort.Slice / sort.SliceStable / sort.Sort / sort.Stable.
// Assumed contract: afterwards the slice holds a permutation of its old contents (witnessed by a fresh bijection) in which
// no later element is "less" than an earlier one, where less is the caller's comparator evaluated symbolically on the
// new contents; the stable variants additionally keep the original order of elements that are equivalent under less
// (evaluated on the old contents).  The comparator is assumed to be a strict weak order.
func modelSortLess(viaInterface bool, stable bool) func(x *Exec, st *State, fr *Frame, call *ssa.Call, args []Val) ([]*State, bool) {
	return func(x *Exec, st *State, fr *Frame, call *ssa.Call, args []Val) ([]*State, bool) {
		if viaInterface {
			// sort.Sort(sort.Reverse(sort.IntSlice(s))) and the Float64Slice / StringSlice forms: a descending sort of s
			if rc, ok := call.Call.Args[0].(*ssa.Call); ok && rc.Call.StaticCallee() != nil && rc.Call.StaticCallee().String() == "sort.Reverse" {
				if mi, ok := rc.Call.Args[0].(*ssa.MakeInterface); ok {
					if ct, ok := mi.X.(*ssa.ChangeType); ok {
						var es Sort
						isStr, known := false, true
						switch ct.Type().String() {
						case "sort.IntSlice":
							es = SInt
						case "sort.Float64Slice":
							es = SReal
						case "sort.StringSlice":
							es, isStr = SStr, true
						default:
							known = false
						}
						if known {
							sv := x.val(st, fr, ct.X)
							return modelSortBasicDir(es, isStr, true)(x, st, fr, call, []Val{sv})
						}
					}
				}
			}
		}
		var s *Term          // the slice being sorted
		var elem types.Type  // its element type
		var lessFn *ssa.Function
		var lessBind []Val
		var recv []Val
		boxed := args[0].T
		if boxed == nil || boxed.Kind != kApp || !strings.HasPrefix(boxed.Op, "box_") {
			fail("sort: argument is not a statically known value")
		}
		var bt types.Type
		for _, tt := range x.TI.tagTypes {
			if x.TI.boxName(tt) == boxed.Op {
				bt = tt
			}
		}
		if viaInterface {
			// sort.Sort(x): x is a pointer to a named slice type with Len/Less/Swap
			pt, ok := types.Unalias(bt).Underlying().(*types.Pointer)
			if !ok {
				fail("sort.Sort on %s: only pointers to slice types are modelled", bt)
			}
			sl, ok := types.Unalias(pt.Elem()).Underlying().(*types.Slice)
			if !ok {
				fail("sort.Sort on %s: only pointers to slice types are modelled", bt)
			}
			elem = sl.Elem()
			ptr := boxed.Args[0]
			hs := x.TI.SortOf(pt.Elem())
			s = Select(x.heapGet(st, hpComp(hs), hpSort(hs)), ptr)
			lessFn = x.prog.LookupMethod(bt, nil, "Less")
			if lessFn == nil {
				for _, pkg := range x.prog.AllPackages() {
					if m := x.prog.LookupMethod(bt, pkg.Pkg, "Less"); m != nil {
						lessFn = m
						break
					}
				}
			}
			if lessFn == nil {
				fail("sort.Sort: no Less method found for %s", bt)
			}
			recv = []Val{{T: ptr}}
		} else {
			sl, ok := types.Unalias(bt).Underlying().(*types.Slice)
			if !ok {
				fail("sort.Slice on non-slice %s", bt)
			}
			elem = sl.Elem()
			s = boxed.Args[0]
			if args[1].Clo == nil {
				fail("sort.Slice: comparator is not a statically known closure")
			}
			lessFn, lessBind = args[1].Clo.fn, args[1].Clo.bindings
		}
		es := x.TI.SortOf(elem)
		comp, cs := hsComp(es), hsSort(es)
		x.frameCheckCond(st, Cmp(">", SlLen(s), IntLit(1)), SlArr(s), "call.sort")
		pre := st.clone()
		h := x.heapGet(st, comp, cs)
		row := x.freshVar(comp+"_sortedrow", ArraySort(SInt, es))
		x.rowWfAssume(st, row, comp, st.alloc)
		st.heap[comp] = Store(h, SlArr(s), row)
		x.n++
		perm, inv := "perm_"+itoa(x.n), "perminv_"+itoa(x.n)
		x.U.Declare(perm, SInt, SInt)
		x.U.Declare(inv, SInt, SInt)
		i, j := Var("si", SInt), Var("sj", SInt)
		n := SlLen(s)
		inr := func(v *Term) *Term { return And(Cmp(">=", v, IntLit(0)), Cmp("<", v, n)) }
		oldRow := Select(h, SlArr(s))
		pi := App(perm, SInt, i)
		st.assume(Forall([]*Term{i}, Implies(inr(i), And(inr(pi), Eq(App(inv, SInt, pi), i), Eq(Select(row, Sidx(SlOff(s), i)), Select(oldRow, Sidx(SlOff(s), pi))))), []*Term{pi}, []*Term{Select(row, Sidx(SlOff(s), i))}))
		ii := App(inv, SInt, i)
		st.assume(Forall([]*Term{i}, Implies(inr(i), And(inr(ii), Eq(App(perm, SInt, ii), i))), []*Term{ii}))
		k := Var("sk", SInt)
		st.assume(Forall([]*Term{k}, Implies(Or(Cmp("<", k, SlOff(s)), Cmp(">=", k, Arith("+", SlOff(s), n))),
			Eq(Select(row, k), Select(oldRow, k))), []*Term{Select(row, k)}))
		// every old element is somewhere in the new contents (triggered by reads of the old contents)
		oldAt := Select(oldRow, Sidx(SlOff(s), i))
		st.assume(Forall([]*Term{i}, Implies(inr(i), And(inr(ii), Eq(Select(row, Sidx(SlOff(s), ii)), oldAt))), []*Term{oldAt}))
		// no inversion in the new contents
		lessNew := x.boolSummary(st, lessFn, lessBind, append(append([]Val{}, recv...), Val{T: j}, Val{T: i}))
		st.assume(Forall([]*Term{i, j}, Implies(And(inr(i), inr(j), Cmp("<", i, j)), Not(lessNew))))
		if stable {
			pj := App(perm, SInt, j)
			l1 := x.boolSummary(pre, lessFn, lessBind, append(append([]Val{}, recv...), Val{T: pi}, Val{T: pj}))
			l2 := x.boolSummary(pre, lessFn, lessBind, append(append([]Val{}, recv...), Val{T: pj}, Val{T: pi}))
			st.assume(Forall([]*Term{i, j}, Implies(And(inr(i), inr(j), Cmp("<", i, j), Not(l1), Not(l2)), Cmp("<", pi, pj)), []*Term{pi, pj}))
		}
		fr.vals[call] = Val{}
		fr.idx++
		return nil, true
	}
}

func init() {
	extModels["sort.Slice"] = &extModel{name: "sort.Slice", doc: "in-place sort: permutation of the old contents without inversions under the comparator (assumed strict weak order)", apply: modelSortLess(false, false), writes: []int{0}}
	extModels["sort.SliceStable"] = &extModel{name: "sort.SliceStable", doc: "as sort.Slice, and equivalent elements keep their order", apply: modelSortLess(false, true), writes: []int{0}}
	extModels["sort.Sort"] = &extModel{name: "sort.Sort", doc: "in-place sort through Len/Less/Swap of a pointer-to-slice type: permutation without inversions under Less", apply: modelSortLess(true, false), writes: []int{0}}
	extModels["sort.Stable"] = &extModel{name: "sort.Stable", doc: "as sort.Sort, stable", apply: modelSortLess(true, true), writes: []int{0}}
}

func (x *Exec) externalModel(fn *ssa.Function) *extModel {
	return extModels[fn.String()]
}

// modelSortBasic: after the call the slice holds a sorted permutation of its old contents.
// The permutation is witnessed by a fresh uninterpreted bijection on [0,len).
func modelSortBasic(es Sort, isStr bool) func(x *Exec, st *State, fr *Frame, call *ssa.Call, args []Val) ([]*State, bool) {
	return modelSortBasicDir(es, isStr, false)
}

func modelSortBasicDir(es Sort, isStr bool, desc bool) func(x *Exec, st *State, fr *Frame, call *ssa.Call, args []Val) ([]*State, bool) {
	return func(x *Exec, st *State, fr *Frame, call *ssa.Call, args []Val) ([]*State, bool) {
		s := args[0].T
		comp, cs := hsComp(es), hsSort(es)
		x.frameCheckCond(st, Cmp(">", SlLen(s), IntLit(1)), SlArr(s), "call.sort")
		h := x.heapGet(st, comp, cs)
		nh := x.freshVar(comp+"_sorted", cs)
		a := Var("fa", SInt)
		st.assume(Forall([]*Term{a}, Implies(Not(Eq(a, SlArr(s))), Eq(Select(nh, a), Select(h, a))), []*Term{Select(nh, a)}))
		x.n++
		perm := "perm_" + itoa(x.n)
		inv := "perminv_" + itoa(x.n)
		x.U.Declare(perm, SInt, SInt)
		x.U.Declare(inv, SInt, SInt)
		i, j := Var("si", SInt), Var("sj", SInt)
		n := SlLen(s)
		inr := func(v *Term) *Term { return And(Cmp(">=", v, IntLit(0)), Cmp("<", v, n)) }
		at := func(hh *Term, v *Term) *Term { return Select(Select(hh, SlArr(s)), Sidx(SlOff(s), v)) }
		pi := App(perm, SInt, i)
		st.assume(Forall([]*Term{i}, Implies(inr(i), And(inr(pi), Eq(App(inv, SInt, pi), i), Eq(at(nh, i), at(h, pi)))), []*Term{pi}))
		ii := App(inv, SInt, i)
		st.assume(Forall([]*Term{i}, Implies(inr(i), And(inr(ii), Eq(App(perm, SInt, ii), i))), []*Term{ii}))
		// outside the window nothing changes
		k := Var("sk", SInt)
		st.assume(Forall([]*Term{k}, Implies(Or(Cmp("<", k, SlOff(s)), Cmp(">=", k, Arith("+", SlOff(s), n))),
			Eq(Select(Select(nh, SlArr(s)), k), Select(Select(h, SlArr(s)), k))), []*Term{Select(Select(nh, SlArr(s)), k)}))
		var le *Term
		if isStr && desc {
			le = Not(App(x.strLt(), SBool, at(nh, i), at(nh, j)))
		} else if isStr {
			le = Not(App(x.strLt(), SBool, at(nh, j), at(nh, i)))
		} else if desc {
			le = Cmp(">=", at(nh, i), at(nh, j))
		} else {
			le = Cmp("<=", at(nh, i), at(nh, j))
		}
		st.assume(Forall([]*Term{i, j}, Implies(And(inr(i), inr(j), Cmp("<", i, j)), le), []*Term{at(nh, i), at(nh, j)}))
		st.heap[comp] = nh
		fr.vals[call] = Val{}
		fr.idx++
		return nil, true
	}
}

func itoa(n int) string {
	if n == 0 {
		return "0"
	}
	s := ""
	for n > 0 {
		s = string(rune('0'+n%10)) + s
		n /= 10
	}
	return s
}

var _ = types.Typ


// decodedTerms: "the source of a DecodeToStruct names this field" and "the value it gives it" (uninterpreted).
func (x *Exec) decodedTerms(src *Term, field string, fs Sort) (*Term, *Term) {
	x.U.Declare("dec_has", SBool, SIface, SStr)
	vn := "dec_val_" + mangleSort(fs)
	x.U.Declare(vn, fs, SIface, SStr)
	k := x.TI.StrLit(field)
	return App("dec_has", SBool, src, k), App(vn, fs, src, k)
}
