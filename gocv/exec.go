package main

// Symbolic executor over go/ssa (naive form): one pass per function under contract,
// loops cut at their heads by invariants, calls replaced by contracts (or inlined when small).

import (
	"fmt"
	"go/constant"
	"go/token"
	"go/types"
	"math/big"
	"os"
	"runtime/debug"
	"sort"
	"strings"

	"golang.org/x/tools/go/ssa"
)

type Obligation struct {
	Name        string
	Func        string
	Kind        string
	Label       string
	Props       []string
	Src         string
	Assumptions []*Term
	Goal        *Term
	Cover       bool // must be satisfiable (vacuity guard)
	Path        int
	// filled by the solver stage
	Result string
	Solver string
	TimeS  float64
	Model  string
	File   string
	Replay *ReplayInfo // how to turn a model of the negated obligation into a call of the real function (nil: not replayable)
}

type unsupported struct{ msg string }

func (u unsupported) Error() string { return u.msg }

func fail(format string, a ...interface{}) {
	if os.Getenv("GOCV_TRACE") != "" {
		debug.PrintStack()
	}
	panic(unsupported{fmt.Sprintf(format, a...)})
}

type Exec struct {
	lastTypes map[string]types.Type // result types behind the last_<Name> identifiers of contracts
	appendSum map[*ssa.Function]map[int]bool // per library function: the slice parameters it appends to (lazily computed)
	prog  *ssa.Program
	U     *Universe
	TI    *TypeInfo
	DB    *SpecDB
	finfo map[*ssa.Function]*FuncInfo
	n     int
	// per-verification context
	vc *VC
	// options
	maxPaths    int
	inlineLimit int
	pkgByPath   map[string]*ssa.Package
	fnByKey     map[string]*ssa.Function
	loopFreshFn func(v ssa.Value, depth int) bool
	pendingReplay *ReplayInfo
	allocRankN  int
	ginit       map[*ssa.Global]*Term
	pure        *pureCtx
	alias       map[*ssa.Function]string
}

type VC struct {
	fn        *ssa.Function
	spec      *FuncSpec
	entry     *State
	paramEnv  map[string]SV
	initHeap  map[string]*Term
	allocBase *Term
	obls      []*Obligation
	paths     int
	frameIDs  int
	assignIDs []*Term // ids (arrays, maps, pointers) the function may assign
	checkFrame bool
	trackPanics bool
	notes     []string
	retPaths  int
}

func NewExec(prog *ssa.Program, db *SpecDB) *Exec {
	u := NewUniverse()
	x := &Exec{prog: prog, U: u, TI: NewTypeInfo(u), DB: db, finfo: map[*ssa.Function]*FuncInfo{}, maxPaths: 3000, inlineLimit: 60,
		pkgByPath: map[string]*ssa.Package{}, fnByKey: map[string]*ssa.Function{}, alias: map[*ssa.Function]string{}, ginit: map[*ssa.Global]*Term{}}
	theExec = x
	return x
}

func (x *Exec) freshVar(hint string, s Sort) *Term {
	x.n++
	return Var(fmt.Sprintf("%s_%d", sanitize(hint), x.n), s)
}

func deref(t types.Type) types.Type {
	if p, ok := types.Unalias(t).Underlying().(*types.Pointer); ok {
		return p.Elem()
	}
	panic("deref of non-pointer " + t.String())
}

var theExec *Exec

func funcKey(fn *ssa.Function) string {
	if theExec != nil {
		if a, ok := theExec.alias[fn]; ok {
			return a
		}
	}
	return funcKey0(fn)
}

func funcKey0(fn *ssa.Function) string {
	// pkgpath.Name  |  pkgpath.(*T).M  |  pkgpath.(T).M  |  pkgpath.F$1
	if fn.Pkg == nil && fn.Parent() == nil && fn.Signature.Recv() == nil {
		return fn.String()
	}
	pkg := fn.Pkg
	if pkg == nil && fn.Parent() != nil {
		pkg = fn.Parent().Pkg
	}
	pp := ""
	if pkg != nil {
		pp = pkg.Pkg.Path()
	} else if fn.Object() != nil && fn.Object().Pkg() != nil {
		pp = fn.Object().Pkg().Path()
	}
	name := fn.Name()
	if recv := fn.Signature.Recv(); recv != nil {
		rt := types.Unalias(recv.Type())
		if p, ok := rt.(*types.Pointer); ok {
			if n, ok := types.Unalias(p.Elem()).(*types.Named); ok {
				name = "(*" + n.Obj().Name() + ")." + fn.Name()
			}
		} else if n, ok := rt.(*types.Named); ok {
			name = "(" + n.Obj().Name() + ")." + fn.Name()
		}
	} else if fn.Parent() != nil {
		// anonymous function: Parent$N  (ssa names them parent$1 ...)
		name = fn.Name()
		if par := fn.Parent(); par.Signature.Recv() != nil {
			// ssa gives e.g. "(*T).M$1" via RelString; rebuild
			pk := funcKey(par)
			base := pk[strings.LastIndex(pk, "/")+1:]
			_ = base
			name = strings.TrimPrefix(pk, pp+".") + strings.TrimPrefix(fn.Name(), par.Name())
		}
	}
	return pp + "." + name
}

func shortFuncName(fn *ssa.Function) string {
	k := funcKey(fn)
	// strip package path but keep short package name
	i := strings.LastIndex(k, "/")
	return k[i+1:]
}

// ---------------------------------------------------------------------------
// heap helpers

func (x *Exec) heapGet(st *State, comp string, sort Sort) *Term {
	if t, ok := st.heap[comp]; ok {
		return t
	}
	if t, ok := x.vc.initHeap[comp]; ok {
		return t
	}
	t := Var(comp+"_0", sort)
	x.vc.initHeap[comp] = t
	x.heapWfAxiom(t, comp, Var("alloc_0", SInt))
	return t
}

// heapWfAxiom: every value stored at an allocated address refers only to allocated objects.
func (x *Exec) heapWfAxiom(h *Term, comp string, alloc *Term) {
	a, i := Var("wa", SInt), Var("wi", SInt)
	var ax *Term
	switch {
	case strings.HasPrefix(comp, "HS_"):
		_, row := h.Sort.ArrayParts()
		_, es := row.ArrayParts()
		e := Select(Select(h, a), i)
		w := x.wfSortAt(alloc, e, es, 0)
		if w.IsTrue() {
			return
		}
		ax = Forall([]*Term{a, i}, Implies(And(Cmp(">=", a, IntLit(0)), Cmp("<", a, alloc)), w), []*Term{e})
	case strings.HasPrefix(comp, "HP_"):
		_, es := h.Sort.ArrayParts()
		e := Select(h, a)
		w := x.wfSortAt(alloc, e, es, 0)
		if w.IsTrue() {
			return
		}
		ax = Forall([]*Term{a}, Implies(And(Cmp(">=", a, IntLit(0)), Cmp("<", a, alloc)), w), []*Term{e})
	case strings.HasPrefix(comp, "MV_"):
		_, row := h.Sort.ArrayParts()
		ks, vs := row.ArrayParts()
		k := Var("wk", ks)
		e := Select(Select(h, a), k)
		w := x.wfSortAt(alloc, e, vs, 0)
		if w.IsTrue() {
			return
		}
		ax = Forall([]*Term{a, k}, Implies(And(Cmp(">=", a, IntLit(0)), Cmp("<", a, alloc)), w), []*Term{e})
	default:
		return
	}
	x.U.AddAxiom(h.Op, ax)
}

// freshRangeWf: with row-level havoc the objects allocated by earlier iterations are the (otherwise unconstrained) rows of the
// underlying heap variable in [lo, hi); like every allocated object their content is well-formed w.r.t. the bound hi.
func (x *Exec) freshRangeWf(st *State, h *Term, comp string, lo, hi *Term) {
	root := h
	for root.Kind == kApp && root.Op == "store" {
		root = root.Args[0]
	}
	if root.Kind != kVar {
		return
	}
	a, i := Var("wa", SInt), Var("wi", SInt)
	rng := And(Cmp(">=", a, lo), Cmp("<", a, hi))
	switch {
	case strings.HasPrefix(comp, "HS_"):
		_, row := root.Sort.ArrayParts()
		_, es := row.ArrayParts()
		e := Select(Select(root, a), i)
		if w := x.wfSortAt(hi, e, es, 0); !w.IsTrue() {
			st.assume(Forall([]*Term{a, i}, Implies(rng, w), []*Term{e}))
		}
	case strings.HasPrefix(comp, "HP_"):
		_, es := root.Sort.ArrayParts()
		e := Select(root, a)
		if w := x.wfSortAt(hi, e, es, 0); !w.IsTrue() {
			st.assume(Forall([]*Term{a}, Implies(rng, w), []*Term{e}))
		}
	case strings.HasPrefix(comp, "MV_"):
		_, row := root.Sort.ArrayParts()
		ks, vs := row.ArrayParts()
		k := Var("wk", ks)
		e := Select(Select(root, a), k)
		if w := x.wfSortAt(hi, e, vs, 0); !w.IsTrue() {
			st.assume(Forall([]*Term{a, k}, Implies(rng, w), []*Term{e}))
		}
	}
}

// rowWfAssume: the content of a havocked object is well-formed.
func (x *Exec) rowWfAssume(st *State, row *Term, comp string, alloc *Term) {
	switch {
	case strings.HasPrefix(comp, "HS_"):
		_, es := row.Sort.ArrayParts()
		i := Var("wi", SInt)
		e := Select(row, i)
		if w := x.wfSortAt(alloc, e, es, 0); !w.IsTrue() {
			st.assume(Forall([]*Term{i}, w, []*Term{e}))
		}
	case strings.HasPrefix(comp, "HP_"):
		if w := x.wfSortAt(alloc, row, row.Sort, 0); !w.IsTrue() {
			st.assume(w)
		}
	case strings.HasPrefix(comp, "MV_"):
		ks, vs := row.Sort.ArrayParts()
		k := Var("wk", ks)
		e := Select(row, k)
		if w := x.wfSortAt(alloc, e, vs, 0); !w.IsTrue() {
			st.assume(Forall([]*Term{k}, w, []*Term{e}))
		}
	}
}

// wfSortAt: sort-directed well-formedness (plain Int fields are skipped unless the struct type says they are references).
func (x *Exec) wfSortAt(alloc *Term, v *Term, s Sort, depth int) *Term {
	if s == SSlice {
		return And(Cmp(">=", SlArr(v), IntLit(0)), Cmp("<", SlArr(v), alloc), Cmp(">=", SlOff(v), IntLit(0)),
			Cmp(">=", SlLen(v), IntLit(0)), Cmp("<=", SlLen(v), SlCap(v)),
			Implies(Eq(SlArr(v), IntLit(0)), And(Eq(SlCap(v), IntLit(0)), Eq(SlOff(v), IntLit(0)))))
	}
	if st, ok := x.TI.structOf[s]; ok && depth < 4 {
		var cs []*Term
		for i := 0; i < st.NumFields(); i++ {
			cs = append(cs, x.wfAt(alloc, x.TI.FieldSel(s, i, v), st.Field(i).Type(), depth+1))
		}
		return And(cs...)
	}
	return TTrue
}

func (x *Exec) allocID(st *State) *Term {
	id := st.alloc
	st.alloc = addConst(st.alloc, 1)
	st.freshID[id.String()] = true
	return id
}

// addConst keeps allocation counters in the normal form base or (+ base k).
func addConst(t *Term, k int64) *Term {
	if t.Kind == kApp && t.Op == "+" && len(t.Args) == 2 && t.Args[1].Kind == kLit {
		if n, ok := litInt(t.Args[1]); ok {
			return App("+", SInt, t.Args[0], IntLit(n.Int64()+k))
		}
	}
	return App("+", SInt, t, IntLit(k))
}

// wf: well-formedness of a value of Go type t (references point below the allocation counter).
// A value computed from entry-state symbols only (parameters, the initial heap) existed when the function was entered, so
// what it refers to lies below the entry allocation counter; anything else is bounded by the current counter.
func (x *Exec) wf(st *State, v *Term, t types.Type) *Term {
	if x.vc != nil && x.vc.allocBase != nil && entryOnly(v) {
		return x.wfAt(x.vc.allocBase, v, t, 0)
	}
	return x.wfAt(st.alloc, v, t, 0)
}

func init() { entryOnlyHook = entryOnly }

var entryOnlyCache = map[*Term]bool{}

func entryOnly(t *Term) bool {
	if v, ok := entryOnlyCache[t]; ok {
		return v
	}
	v := entryOnly0(t)
	if len(entryOnlyCache) > 200000 {
		entryOnlyCache = map[*Term]bool{}
	}
	entryOnlyCache[t] = v
	return v
}

func entryOnly0(t *Term) bool {
	ok := true
	n := 0
	t.walk(func(s *Term) {
		n++
		if !ok || n > 400 {
			ok = ok && n <= 400
			return
		}
		switch s.Kind {
		case kVar:
			if !(strings.HasPrefix(s.Op, "p_") || (strings.HasSuffix(s.Op, "_0") && isHeapComp(s.Op))) {
				ok = false // in particular alloc_0: ids built from it are fresh, not entry values
			}
		case kApp:
			if s.Op == "store" || strings.HasPrefix(s.Op, "zerorow_") {
				ok = false
			}
		}
	})
	return ok
}

func (x *Exec) wfAt(alloc *Term, v *Term, t types.Type, depth int) *Term {
	t = types.Unalias(t)
	switch u := t.Underlying().(type) {
	case *types.Slice:
		return And(Cmp(">=", SlArr(v), IntLit(0)), Cmp("<", SlArr(v), alloc), Cmp(">=", SlOff(v), IntLit(0)),
			Cmp(">=", SlLen(v), IntLit(0)), Cmp("<=", SlLen(v), SlCap(v)),
			Implies(Eq(SlArr(v), IntLit(0)), And(Eq(SlCap(v), IntLit(0)), Eq(SlOff(v), IntLit(0)))))
	case *types.Map, *types.Pointer:
		return And(Cmp(">=", v, IntLit(0)), Cmp("<", v, alloc))
	case *types.Struct:
		if depth > 4 {
			return TTrue
		}
		s := x.TI.SortOf(t)
		var cs []*Term
		for i := 0; i < u.NumFields(); i++ {
			cs = append(cs, x.wfAt(alloc, x.TI.FieldSel(s, i, v), u.Field(i).Type(), depth+1))
		}
		return And(cs...)
	}
	return TTrue
}

func (x *Exec) elemComp(elem types.Type) (string, Sort) {
	es := x.TI.SortOf(elem)
	return hsComp(es), hsSort(es)
}

// typeAtPath returns the type reached from root through struct field indices.
func typeAtPath(root types.Type, path []int) types.Type {
	t := root
	for _, i := range path {
		st := types.Unalias(t).Underlying().(*types.Struct)
		t = st.Field(i).Type()
	}
	return t
}

func (x *Exec) loadRoot(st *State, l *Loc) *Term {
	switch l.kind {
	case locCell:
		v, ok := st.cells[l.cell]
		if !ok {
			fail("read of uninitialised cell %s", l.cell.alloc.Name())
		}
		return v
	case locHeap:
		s := x.TI.SortOf(l.root)
		return Select(x.heapGet(st, hpComp(s), hpSort(s)), l.addr)
	case locElem:
		comp, cs := x.elemComp(l.root)
		return Select(Select(x.heapGet(st, comp, cs), l.addr), l.idx)
	case locGlobal:
		if v, ok := st.globals[l.global]; ok {
			return v
		}
		if v := x.globalInit(l.global); v != nil {
			return v
		}
		return Var("G_"+sanitize(l.global.Pkg.Pkg.Name()+"_"+l.global.Name()), x.TI.SortOf(l.root))
	}
	fail("load from unsupported location kind %d", l.kind)
	return nil
}

func (x *Exec) load(st *State, l *Loc) *Term {
	v := x.loadRoot(st, l)
	t := l.root
	for _, i := range l.path {
		s := x.TI.SortOf(t)
		v = x.TI.FieldSel(s, i, v)
		t = types.Unalias(t).Underlying().(*types.Struct).Field(i).Type()
	}
	return v
}

func (x *Exec) updPath(root types.Type, path []int, cur *Term, nv *Term) *Term {
	if len(path) == 0 {
		return nv
	}
	s := x.TI.SortOf(root)
	ft := types.Unalias(root).Underlying().(*types.Struct).Field(path[0]).Type()
	inner := x.updPath(ft, path[1:], x.TI.FieldSel(s, path[0], cur), nv)
	return x.TI.FieldUpd(s, path[0], cur, inner)
}

func (x *Exec) store(st *State, l *Loc, v *Term, what string) {
	switch l.kind {
	case locCell:
		if len(l.path) == 0 {
			st.cells[l.cell] = v
			return
		}
		cur, ok := st.cells[l.cell]
		if !ok {
			cur = x.TI.Zero(l.root)
		}
		st.cells[l.cell] = x.updPath(l.root, l.path, cur, v)
	case locHeap:
		x.frameCheck(st, l.addr, what)
		s := x.TI.SortOf(l.root)
		h := x.heapGet(st, hpComp(s), hpSort(s))
		nv := x.updPath(l.root, l.path, Select(h, l.addr), v)
		st.heap[hpComp(s)] = Store(h, l.addr, nv)
	case locElem:
		x.frameCheck(st, l.addr, what)
		comp, cs := x.elemComp(l.root)
		h := x.heapGet(st, comp, cs)
		row := Select(h, l.addr)
		nv := x.updPath(l.root, l.path, Select(row, l.idx), v)
		st.heap[comp] = Store(h, l.addr, Store(row, l.idx, nv))
	case locGlobal:
		x.oblige(st, "frame", "global_"+l.global.Name(), nil, TFalse, "store to package-level variable "+l.global.Name())
		cur := x.loadRoot(st, l)
		st.globals[l.global] = x.updPath(l.root, l.path, cur, v)
	default:
		fail("store to unsupported location")
	}
}

// frameCheck: a write to object `id` must hit memory allocated by this activation or named in assigns.
func (x *Exec) frameCheck(st *State, id *Term, what string) {
	vc := x.vc
	if !vc.checkFrame || st.freshID[id.String()] {
		return
	}
	goal := Cmp(">=", id, vc.allocBase)
	alts := []*Term{goal}
	for _, a := range vc.assignIDs {
		alts = append(alts, Eq(id, a))
	}
	x.oblige(st, "frame", what, nil, Or(alts...), "write to memory that is neither fresh nor named in assigns")
}

// globalInit: the value a package-level variable gets from its initialiser, when that is built from constants only.
// (Assumption: package-level variables are not assigned after initialisation; every store to one is reported as a frame
// violation of the storing function.)
func (x *Exec) globalInit(g *ssa.Global) *Term {
	if v, ok := x.ginit[g]; ok {
		return v
	}
	x.ginit[g] = nil
	initFn := g.Pkg.Func("init")
	if initFn == nil {
		return nil
	}
	t := deref(g.Type())
	val := x.TI.Zero(t)
	ok := true
	var pathOf func(v ssa.Value) ([]int, bool)
	pathOf = func(v ssa.Value) ([]int, bool) {
		switch v := v.(type) {
		case *ssa.Global:
			return nil, v == g
		case *ssa.FieldAddr:
			p, is := pathOf(v.X)
			if !is {
				return nil, false
			}
			return append(append([]int{}, p...), v.Field), true
		}
		return nil, false
	}
	for _, b := range initFn.Blocks {
		for _, ins := range b.Instrs {
			st, isStore := ins.(*ssa.Store)
			if !isStore {
				continue
			}
			p, is := pathOf(st.Addr)
			if !is {
				continue
			}
			c, isConst := st.Val.(*ssa.Const)
			if !isConst {
				ok = false
				continue
			}
			val = x.updPath(t, p, val, x.constVal(c).T)
		}
	}
	if !ok {
		return nil
	}
	x.ginit[g] = val
	return val
}

// ---------------------------------------------------------------------------
// obligations

func (x *Exec) oblige(st *State, kind, label string, props []string, goal *Term, src string, extra ...*Term) {
	vc := x.vc
	if goal.IsTrue() {
		// closed by term normalisation (both sides syntactically identical): recorded, no solver needed
		if kind == "ensures" || strings.HasPrefix(kind, "loop") || strings.HasPrefix(kind, "panics") || strings.HasPrefix(kind, "call.") {
			if props == nil {
				props = vc.spec.Props
			}
			name := shortFuncName(vc.fn) + "#" + kind
			if label != "" {
				name += "." + label
			}
			vc.obls = append(vc.obls, &Obligation{Name: name, Func: shortFuncName(vc.fn), Kind: kind, Label: label, Props: props, Src: src,
				Goal: TTrue, Path: vc.paths, Result: "unsat", Solver: "syntactic"})
		}
		return
	}
	if props == nil {
		props = vc.spec.Props
	}
	name := shortFuncName(vc.fn) + "#" + kind
	if label != "" {
		name += "." + label
	}
	as := append([]*Term{}, st.pc...)
	as = append(as, extra...)
	ob := &Obligation{Name: name, Func: shortFuncName(vc.fn), Kind: kind, Label: label, Props: props, Src: src,
		Assumptions: as, Goal: goal, Path: vc.paths}
	if x.pendingReplay != nil && (kind == "ensures" || strings.HasPrefix(kind, "panics") || kind == "safe.nopanic") {
		ob.Replay = x.pendingReplay
	}
	vc.obls = append(vc.obls, ob)
}

// ---------------------------------------------------------------------------
// values

func (x *Exec) constVal(c *ssa.Const) Val {
	t := types.Unalias(c.Type())
	if c.Value == nil {
		// zero value / nil
		if _, ok := t.Underlying().(*types.Basic); ok && t.Underlying().(*types.Basic).Kind() == types.UntypedNil {
			return Val{T: IntLit(0)}
		}
		return Val{T: x.TI.Zero(t)}
	}
	switch x.TI.SortOf(t) {
	case SBool:
		if constant.BoolVal(c.Value) {
			return Val{T: TTrue}
		}
		return Val{T: TFalse}
	case SInt:
		v := constant.ToInt(c.Value)
		if bi, ok := constant.Val(v).(interface{ String() string }); ok {
			n, _ := litIntStr(bi.String())
			if n != nil {
				return Val{T: BigIntLit(n)}
			}
		}
		if i, ok := constant.Int64Val(v); ok {
			return Val{T: IntLit(i)}
		}
		fail("integer constant %s", c.Value)
	case SReal:
		return Val{T: realOfConstant(c.Value)}
	case SStr:
		return Val{T: x.TI.StrLit(constant.StringVal(c.Value))}
	}
	fail("constant of type %s", t)
	return Val{}
}

func (x *Exec) val(st *State, fr *Frame, v ssa.Value) Val {
	switch v := v.(type) {
	case *ssa.Const:
		return x.constVal(v)
	case *ssa.Global:
		return Val{Loc: &Loc{kind: locGlobal, global: v, root: deref(v.Type())}}
	case *ssa.Function:
		return Val{Clo: &Closure{fn: v}}
	case *ssa.Builtin:
		fail("builtin %s used as value", v.Name())
	}
	if r, ok := fr.vals[v]; ok {
		return r
	}
	fail("value %s (%T) not available in %s", v.Name(), v, fr.fn.Name())
	return Val{}
}

// term forces a value into an SMT term (materialising interior pointers).
func (x *Exec) term(st *State, v Val, t types.Type) *Term {
	if v.T != nil {
		return v.T
	}
	if v.Loc != nil {
		l := v.Loc
		if l.kind == locHeap && len(l.path) == 0 {
			return l.addr
		}
		if l.kind == locArr {
			fail("pointer to array used as a value")
		}
		// materialise: copy the pointee to a fresh heap cell
		pt := typeAtPath(l.root, l.path)
		id := x.allocID(st)
		s := x.TI.SortOf(pt)
		h := x.heapGet(st, hpComp(s), hpSort(s))
		st.heap[hpComp(s)] = Store(h, id, x.load(st, l))
		st.mats = append(st.mats, matEntry{addr: id, loc: l, typ: pt})
		return id
	}
	if v.Clo != nil {
		name := "fnval_" + sanitize(shortFuncName(v.Clo.fn))
		if len(v.Clo.bindings) == 0 {
			x.U.Declare(name, SInt)
			x.closureAxiom(v.Clo.fn, name)
			return App(name, SInt)
		}
		return x.freshVar(name, SInt)
	}
	fail("cannot turn value into a term")
	return nil
}

// loc interprets a pointer value as a location.
func (x *Exec) loc(st *State, v Val, ptrType types.Type) *Loc {
	if v.Loc != nil {
		return v.Loc
	}
	if v.T != nil {
		return &Loc{kind: locHeap, addr: v.T, root: deref(ptrType)}
	}
	fail("not a pointer value")
	return nil
}

// ---------------------------------------------------------------------------
// function verification driver

func (x *Exec) VerifyFunc(fn *ssa.Function, spec *FuncSpec) (obls []*Obligation, notes []string, err error) {
	defer func() {
		if r := recover(); r != nil {
			if u, ok := r.(unsupported); ok {
				err = fmt.Errorf("%s: %s", shortFuncName(fn), u.msg)
				return
			}
			if msg, ok := r.(string); ok && strings.Contains(msg, "sort mismatch") {
				err = fmt.Errorf("%s: contract is ill-sorted: %s", shortFuncName(fn), truncate(msg, 300))
				return
			}
			if os.Getenv("GOCV_TRACE") != "" {
				panic(r)
			}
			// a failure of the generator itself on this function: reported like an unsupported construct (the function is
			// refused, which the check reports under the obligation <function>#generated) instead of ending the whole run
			err = fmt.Errorf("%s: generator failure: %v", shortFuncName(fn), r)
		}
	}()
	vc := &VC{fn: fn, spec: spec, initHeap: map[string]*Term{}, checkFrame: true}
	x.vc = vc
	for ord := range spec.Loops {
		if ord < 1 || ord > len(x.info(fn).loopList) {
			fail("contract names loop %d, the function has %d loop(s)", ord, len(x.info(fn).loopList))
		}
	}
	for _, ch := range spec.CallHints {
		found := false
		for _, b := range fn.Blocks {
			for _, ins := range b.Instrs {
				if c, ok := ins.(ssa.CallInstruction); ok && calledName(c.Common()) == ch.Name {
					found = true
				}
			}
		}
		if !found {
			fail("contract has a callhint for %s, the function calls nothing of that name", ch.Name)
		}
	}
	x.n = 0 // names of generated symbols depend only on the function under verification
	vc.trackPanics = spec.NoPanic || len(spec.PanicsIf) > 0 || len(spec.PanicsIff) > 0
	vc.allocBase = Var("alloc_0", SInt)
	allocRanks = map[string]int{"alloc_0": 0}
	x.allocRankN = 0
	st := &State{heap: map[string]*Term{}, alloc: vc.allocBase, cells: map[cellKey]*Term{}, globals: map[*ssa.Global]*Term{},
		ghost: map[string]*Term{}, freshID: map[string]bool{}}
	st.assume(Cmp(">=", vc.allocBase, IntLit(1)))
	fr := &Frame{id: 0, fn: fn, vals: map[ssa.Value]Val{}, open: map[*Loop]bool{}}
	vc.paramEnv = map[string]SV{}
	for i, p := range fn.Params {
		name := p.Name()
		if name == "_" || name == "" {
			name = fmt.Sprintf("blank%d", i)
		}
		t := x.freshParam(st, name, p.Type())
		fr.vals[p] = Val{T: t}
		vc.paramEnv[name] = SV{T: t, Typ: p.Type()}
	}
	for _, p := range fn.FreeVars {
		t := x.freshParam(st, p.Name(), p.Type())
		fr.vals[p] = Val{T: t}
		// free variables are pointers to the captured variable: expose the variable itself by name
		vc.paramEnv["&"+p.Name()] = SV{T: t, Typ: p.Type()}
	}
	if recv := fn.Signature.Recv(); recv != nil && len(fn.Params) > 0 {
		// the receiver as an interface value (for instantiated interface-method contracts)
		vc.paramEnv["iface_self"] = SV{T: x.TI.Box(recv.Type(), fr.vals[fn.Params[0]].T)}
	}
	vc.entry = st.snapshot()
	// requires
	env := x.entryEnv(st)
	for _, c := range spec.Requires {
		t := x.evalBool(env, c.E)
		st.assume(And(env.takeSide()...))
		st.assume(t)
	}
	// assigns
	for _, a := range spec.Assigns {
		sv := x.eval(env, a)
		st.assume(And(env.takeSide()...))
		vc.assignIDs = append(vc.assignIDs, x.idOf(sv))
	}
	vc.entry.pc = append([]*Term{}, st.pc...)
	// vacuity guard: the preconditions must be satisfiable
	vc.obls = append(vc.obls, &Obligation{Name: shortFuncName(fn) + "#cover.requires", Func: shortFuncName(fn), Kind: "cover", Label: "requires",
		Props: spec.Props, Src: spec.Src, Assumptions: append([]*Term{}, st.pc...), Goal: TFalse, Cover: true})
	if len(fn.Blocks) == 0 {
		fail("function has no body")
	}
	fr.block = fn.Blocks[0]
	st.frames = []*Frame{fr}
	x.run(st)
	if vc.retPaths == 0 && !vc.trackPanics {
		vc.notes = append(vc.notes, "no returning path explored")
	}
	return vc.obls, vc.notes, nil
}

func (x *Exec) freshParam(st *State, name string, t types.Type) *Term {
	v := Var("p_"+sanitize(name), x.TI.SortOf(t))
	switch types.Unalias(t).Underlying().(type) {
	case *types.Pointer, *types.Map:
		allocRanks[v.Op] = -1
	}
	st.assume(x.wf(st, v, t))
	return v
}

// idOf: the object identity behind a slice / map / pointer value.
func (x *Exec) idOf(sv SV) *Term {
	if sv.T.Sort == SSlice {
		return SlArr(sv.T)
	}
	if sv.T.Sort == SInt {
		return sv.T
	}
	fail("assigns: expression is not a slice, map or pointer")
	return nil
}

func (x *Exec) run(st0 *State) {
	work := []*State{st0}
	for len(work) > 0 {
		st := work[len(work)-1]
		work = work[:len(work)-1]
		succ := x.runPath(st)
		work = append(work, succ...)
		if x.vc.paths > x.pathLimit() {
			fail("more than %d paths", x.pathLimit())
		}
	}
}

func (x *Exec) pathLimit() int {
	if x.vc.spec.MaxPaths > 0 {
		return x.vc.spec.MaxPaths
	}
	return x.maxPaths
}

// runPath executes until the path ends or forks; returns successor states.
func (x *Exec) runPath(st *State) []*State {
	for {
		fr := st.top()
		if fr.idx == 0 {
			if done := x.enterBlock(st, fr); done {
				x.vc.paths++
				return nil
			}
		}
		if fr.idx >= len(fr.block.Instrs) {
			fail("fell off block %d of %s", fr.block.Index, fr.fn.Name())
		}
		ins := fr.block.Instrs[fr.idx]
		succ, cont := x.step(st, fr, ins)
		if !cont {
			if len(succ) == 0 {
				x.vc.paths++
			}
			return succ
		}
	}
}

func (x *Exec) gotoBlock(st *State, fr *Frame, b *ssa.BasicBlock) {
	fr.pred = fr.block
	fr.block = b
	fr.idx = 0
}

// enterBlock handles loop heads and phi nodes. Returns true if the path ends here (back edge).
func (x *Exec) enterBlock(st *State, fr *Frame) bool {
	b := fr.block
	fi := x.info(fr.fn)
	lp := fi.loops[b]
	// phi values from the incoming edge (simultaneous)
	var phis []*ssa.Phi
	for _, ins := range b.Instrs {
		if p, ok := ins.(*ssa.Phi); ok {
			phis = append(phis, p)
		} else {
			break
		}
	}
	if len(phis) > 0 {
		pi := -1
		for i, p := range b.Preds {
			if p == fr.pred {
				pi = i
			}
		}
		if pi < 0 {
			fail("phi without predecessor")
		}
		nv := make([]Val, len(phis))
		for i, p := range phis {
			nv[i] = x.val(st, fr, p.Edges[pi])
		}
		for i, p := range phis {
			fr.vals[p] = nv[i]
		}
	}
	fr.idx = len(phis)
	if lp == nil {
		return false
	}
	var ls *LoopSpec
	isTop := len(st.frames) == 1
	if isTop {
		ls = x.vc.spec.Loops[lp.ordinal]
	}
	if fr.open[lp] {
		// back edge: invariants must be preserved
		x.checkInvariants(st, fr, lp, ls, "preserved")
		return true
	}
	x.checkInvariants(st, fr, lp, ls, "init")
	x.havocLoop(st, fr, lp)
	x.assumeInvariants(st, fr, lp, ls)
	fr.open[lp] = true
	// the state at the head of the iteration, for head(...) in hints and invariants checked at the back edge
	if st.heads == nil {
		st.heads = map[*Loop]*State{}
	}
	hs := st.snapshot()
	hs.frames = []*Frame{fr.clone()}
	st.heads[lp] = hs
	return false
}

func (x *Exec) loopEnv(st *State, fr *Frame, lp *Loop) *Env {
	env := x.entryEnv(st)
	env.fr = fr
	env.loop = lp
	return env
}

func (x *Exec) autoInvariants(st *State, fr *Frame, lp *Loop) []*Term {
	var out []*Term
	if lp.rangeCell != nil && lp.rangeLen != nil {
		ri, ok := st.cells[cellKey{fr.id, lp.rangeCell}]
		if !ok {
			return nil
		}
		ln := x.val(st, fr, lp.rangeLen).T
		out = append(out, Cmp(">=", ri, IntLit(-1)), Or(Cmp("<", ri, ln), Eq(ri, IntLit(-1))))
		return out
	}
	if lp.rangeIdx != nil && lp.rangeLen != nil {
		ri := x.val(st, fr, lp.rangeIdx).T
		ln := x.val(st, fr, lp.rangeLen).T
		out = append(out, Cmp(">=", ri, IntLit(-1)), Cmp("<", ri, Arith("+", ln, IntLit(0))), Cmp("<=", IntLit(-1), ri))
		out[1] = Or(Cmp("<", ri, ln), Eq(ri, IntLit(-1)))
	}
	return out
}

func (x *Exec) checkInvariants(st *State, fr *Frame, lp *Loop, ls *LoopSpec, phase string) {
	for i, t := range x.autoInvariants(st, fr, lp) {
		x.oblige(st, fmt.Sprintf("loop%d.auto%d", lp.ordinal, i), phase, nil, t, "range index bounds")
	}
	if ls == nil {
		return
	}
	env := x.loopEnv(st, fr, lp)
	if phase == "preserved" {
		for i, c := range ls.Hints {
			label := c.Label
			if label == "" {
				label = fmt.Sprintf("%d", i+1)
			}
			pre := env.takeSide()
			rv := x.revealAxioms(env, c.Reveal)
			t := x.evalBool(env, c.E)
			side := append(append(pre, rv...), env.takeSide()...)
			x.oblige(st, fmt.Sprintf("loop%d.hint.%s", lp.ordinal, label), "", c.Props, t, c.Src, side...)
			st.assume(And(side...))
			st.assume(t)
		}
	}
	for i, c := range ls.Invariants {
		label := c.Label
		if label == "" {
			label = fmt.Sprintf("%d", i+1)
		}
		rv := x.revealAxioms(env, c.Reveal)
		t := x.evalBool(env, c.E)
		side := append(rv, env.takeSide()...)
		x.oblige(st, fmt.Sprintf("loop%d.inv.%s", lp.ordinal, label), phase, c.Props, t, c.Src, side...)
	}
}

func (x *Exec) assumeInvariants(st *State, fr *Frame, lp *Loop, ls *LoopSpec) {
	for _, t := range x.autoInvariants(st, fr, lp) {
		st.assume(t)
	}
	if ls == nil {
		return
	}
	env := x.loopEnv(st, fr, lp)
	for _, c := range ls.Invariants {
		t := x.evalBool(env, c.E)
		st.assume(And(env.takeSide()...))
		st.assume(t)
	}
}

// havocLoop forgets everything the loop may change.
func (x *Exec) havocLoop(st *State, fr *Frame, lp *Loop) {
	for k := range st.ghost {
		if strings.HasPrefix(k, "last:") {
			delete(st.ghost, k) // the most recent call is no longer known after a loop cut
		}
	}
	// phis of the header
	for _, ins := range lp.header.Instrs {
		p, ok := ins.(*ssa.Phi)
		if !ok {
			break
		}
		old := fr.vals[p]
		if old.T == nil {
			fail("loop-carried value %s is not a term", p.Name())
		}
		nv := x.freshVar("h_"+p.Comment, old.T.Sort)
		st.assume(x.wf(st, nv, p.Type())) // re-stated after alloc havoc below as well
		fr.vals[p] = Val{T: nv}
	}
	writes := x.loopWrites(st, fr, lp)
	// cells
	var cells []*ssa.Alloc
	for a := range writes.cells {
		cells = append(cells, a)
	}
	sort.Slice(cells, func(i, j int) bool { return cells[i].Pos() < cells[j].Pos() || (cells[i].Pos() == cells[j].Pos() && cells[i].Name() < cells[j].Name()) })
	allocPre := st.alloc
	if writes.allocates {
		nb := x.freshVar("alloc_h", SInt)
		st.assume(Cmp(">=", nb, allocPre))
		st.alloc = nb
		x.allocRankN++
		allocRanks[nb.Op] = x.allocRankN
	}
	for _, a := range cells {
		key := cellKey{fr.id, a}
		if _, ok := st.cells[key]; !ok {
			continue // allocated inside the loop: (re)initialised there
		}
		t := deref(a.Type())
		nv := x.freshVar("h_"+a.Comment, x.TI.SortOf(t))
		st.cells[key] = nv
		st.assume(x.wf(st, nv, t))
	}
	for _, ins := range lp.header.Instrs {
		if p, ok := ins.(*ssa.Phi); ok {
			st.assume(x.wf(st, fr.vals[p].T, p.Type()))
		}
	}
	// heap components
	var comps []string
	for c := range writes.comps {
		comps = append(comps, c)
	}
	sort.Strings(comps)
	for _, c := range comps {
		w := writes.comps[c]
		pre := x.heapGet(st, c, w.sort)
		nh := x.freshVar(c+"_h", w.sort)
		a := Var("fa", SInt)
		cond := []*Term{Cmp("<", a, allocPre)}
		if w.unknownTarget {
			// fall back on the function-level frame: old, non-assignable objects are unchanged since entry
			cond = []*Term{Cmp("<", a, x.vc.allocBase)}
			for _, id := range x.vc.assignIDs {
				cond = append(cond, Not(Eq(a, id)))
			}
			entryH := x.heapGet(x.vc.entry, c, w.sort)
			st.assume(Forall([]*Term{a}, Implies(And(cond...), Eq(Select(nh, a), Select(entryH, a))), []*Term{Select(nh, a)}))
		} else {
			// known targets: only those objects are havocked (row-level), everything else keeps its term
			_, rowSort := w.sort.ArrayParts()
			cur := pre
			seen := map[string]bool{}
			for _, id := range w.targets {
				if id.Kind == kLit || seen[id.String()] {
					continue // -1 marks objects allocated inside the loop: nothing that existed at the head is written
				}
				seen[id.String()] = true
				row := x.freshVar(c+"_row", rowSort)
				cur = Store(cur, id, row)
				x.rowWfAssume(st, row, c, st.alloc)
			}
			st.heap[c] = cur
			if writes.allocates {
				x.freshRangeWf(st, cur, c, allocPre, st.alloc)
			}
			continue
		}
		st.heap[c] = nh
		x.heapWfAxiom(nh, c, st.alloc)
	}
	// accumulators keep the backing array they entered the loop with, or use one allocated inside the loop
	for _, sa := range writes.selfAppends {
		var cur *Term
		if x.info(fr.fn).isCell[sa.alloc] {
			cur = st.cells[cellKey{fr.id, sa.alloc}]
		} else if pv, ok := fr.vals[sa.alloc]; ok && pv.Loc != nil {
			cur = x.load(st, pv.Loc)
		}
		if cur != nil {
			st.assume(Or(Eq(SlArr(cur), sa.arr0), Cmp(">=", SlArr(cur), allocPre)))
		}
	}
	// map-range iterator ghost state
	if lp.rangeIt != nil {
		key := fmt.Sprintf("visited:%d:%s", fr.id, lp.rangeIt.Name())
		if old, ok := st.ghost[key]; ok {
			nv := x.freshVar("visited_h", old.Sort)
			st.ghost[key] = nv
			// visited keys are keys of the map (when the map is not modified in the loop the domain is the entry domain)
			if dk, ok := st.ghost["dom:"+key]; ok {
				ks, _ := old.Sort.ArrayParts()
				k := Var("vk", ks)
				st.assume(Forall([]*Term{k}, Implies(Select(nv, k), Select(dk, k)), []*Term{Select(nv, k)}))
			}
		}
	}
	for k := range st.ghost {
		if strings.HasPrefix(k, "calls:") && writes.calls {
			old := st.ghost[k]
			nv := x.freshVar("calls_h", SInt)
			st.assume(Cmp(">=", nv, old))
			st.ghost[k] = nv
		}
	}
}

type compWrite struct {
	sort          Sort
	targets       []*Term
	unknownTarget bool
}

type selfAppend struct {
	alloc *ssa.Alloc
	arr0  *Term // backing array of the accumulator when the loop is entered
}

type loopWriteSet struct {
	cells     map[*ssa.Alloc]bool
	comps     map[string]*compWrite
	allocates bool
	calls     bool
	// accumulators: locals that the loop only ever assigns "append(itself, ...)" (or loop-fresh slices).  Their backing array is
	// the one they had when the loop was entered or one allocated inside the loop, so an append writes only those.
	selfAppends  []selfAppend
	appendTarget func(v ssa.Value) *Term
}

// loopWrites computes what the loop body may modify, with targets evaluated in the state at the loop head.
func (x *Exec) loopWrites(st *State, fr *Frame, lp *Loop) *loopWriteSet {
	ws := &loopWriteSet{cells: map[*ssa.Alloc]bool{}, comps: map[string]*compWrite{}}
	fi := x.info(fr.fn)
	var blocks []*ssa.BasicBlock
	for b := range lp.blocks {
		blocks = append(blocks, b)
	}
	sort.Slice(blocks, func(i, j int) bool { return blocks[i].Index < blocks[j].Index })
	// first pass: cells stored in the loop
	var rootAlloc func(v ssa.Value) *ssa.Alloc
	rootAlloc = func(v ssa.Value) *ssa.Alloc {
		switch v := v.(type) {
		case *ssa.Alloc:
			return v
		case *ssa.FieldAddr:
			return rootAlloc(v.X)
		}
		return nil
	}
	for _, b := range blocks {
		for _, ins := range b.Instrs {
			if s, ok := ins.(*ssa.Store); ok {
				if a := rootAlloc(s.Addr); a != nil && fi.isCell[a] {
					ws.cells[a] = true
				}
			}
		}
	}
	inLoop := func(v ssa.Value) bool {
		if ins, ok := v.(ssa.Instruction); ok {
			return lp.blocks[ins.Block()]
		}
		return false
	}
	// loop-invariant evaluation of a value at the head
	var headVal func(v ssa.Value, depth int) (Val, bool)
	headVal = func(v ssa.Value, depth int) (Val, bool) {
		if !inLoop(v) {
			if _, isC := v.(*ssa.Const); isC {
				return x.val(st, fr, v), true
			}
			if r, ok := fr.vals[v]; ok {
				return r, true
			}
			if _, isG := v.(*ssa.Global); isG {
				return x.val(st, fr, v), true
			}
			return Val{}, false
		}
		if depth > 6 {
			return Val{}, false
		}
		switch v := v.(type) {
		case *ssa.UnOp:
			if v.Op == token.MUL {
				// load of a heap-allocated local that the loop never stores to (directly or through a callee's assigns)
				if a, ok := v.X.(*ssa.Alloc); ok && !fi.isCell[a] && !inLoop(a) {
					stable := true
					if refs := a.Referrers(); refs != nil {
						for _, r := range *refs {
							if !lp.blocks[r.Block()] {
								continue
							}
							switch r := r.(type) {
							case *ssa.UnOp, *ssa.DebugRef:
							case *ssa.Call:
								if sp := r.Common().StaticCallee(); sp == nil {
									stable = false
								} else if cs := x.DB.Funcs[funcKey(sp)]; cs != nil && len(cs.Assigns) > 0 {
									stable = false
								} else if x.externalModel(sp) != nil && len(x.externalModel(sp).writes) > 0 {
									stable = false
								}
							default:
								stable = false
							}
						}
					}
					if stable {
						if pv, ok := fr.vals[a]; ok && pv.Loc != nil {
							return Val{T: x.load(st, pv.Loc)}, true
						}
					}
				}
				if a := rootAlloc(v.X); a != nil && fi.isCell[a] && !ws.cells[a] {
					if _, ok := st.cells[cellKey{fr.id, a}]; ok {
						pv, ok := headVal(v.X, depth+1)
						if ok && pv.Loc != nil {
							return Val{T: x.load(st, pv.Loc)}, true
						}
					}
				}
			}
		case *ssa.Alloc:
			if fi.isCell[v] {
				return Val{Loc: &Loc{kind: locCell, cell: cellKey{fr.id, v}, root: deref(v.Type())}}, true
			}
		case *ssa.FieldAddr:
			pv, ok := headVal(v.X, depth+1)
			if ok && pv.Loc != nil {
				return Val{Loc: pv.Loc.withField(v.Field)}, true
			}
		}
		return Val{}, false
	}
	// loopFresh: the value is an object allocated in the current iteration (so no object that existed at the loop head is written through it)
	var loopFresh func(v ssa.Value, depth int) bool
	// selfAppendOnly: inside the loop the slice variable a is only loaded, or assigned append(a, ...) (when othersFresh: or a
	// loop-fresh slice).
	inProgress := map[*ssa.Alloc]bool{} // variables whose freshness is being decided (a cyclic dependence is answered "not fresh")
	selfAppendOnly := func(a *ssa.Alloc, othersFresh bool) bool {
		refs := a.Referrers()
		if refs == nil || inProgress[a] {
			return false
		}
		inProgress[a] = true
		defer delete(inProgress, a)
		n := 0
		for _, r := range *refs {
			if !lp.blocks[r.Block()] {
				continue
			}
			switch r := r.(type) {
			case *ssa.Store:
				if r.Addr != a {
					return false
				}
				ok := false
				if c, isCall := r.Val.(*ssa.Call); isCall {
					if b, isB := c.Common().Value.(*ssa.Builtin); isB && b.Name() == "append" {
						if ld, isLd := c.Common().Args[0].(*ssa.UnOp); isLd && ld.Op == token.MUL && ld.X == a {
							ok = true
						}
					}
				}
				if !ok && othersFresh && loopFresh(r.Val, 3) {
					ok = true
				}
				if !ok {
					return false
				}
				n++
			case *ssa.UnOp, *ssa.DebugRef:
			default:
				return false
			}
		}
		return n > 0
	}
	loopFresh = func(v ssa.Value, depth int) bool {
		if depth > 4 || !inLoop(v) {
			return false
		}
		switch v := v.(type) {
		case *ssa.MakeMap, *ssa.MakeSlice:
			return true
		case *ssa.Alloc:
			return !fi.isCell[v]
		case *ssa.Slice:
			return loopFresh(v.X, depth+1)
		case *ssa.Call:
			// append(s, ...) returns s's backing array or a new one
			if b, ok := v.Common().Value.(*ssa.Builtin); ok && b.Name() == "append" {
				return loopFresh(v.Common().Args[0], depth+1)
			}
			return false
		case *ssa.UnOp:
			if v.Op != token.MUL {
				return false
			}
			a, ok := v.X.(*ssa.Alloc)
			if !ok || !lp.blocks[a.Block()] {
				return false
			}
			if _, isSlice := types.Unalias(deref(a.Type())).Underlying().(*types.Slice); isSlice && selfAppendOnly(a, true) {
				return true // declared in the loop, starts nil or loop-fresh, and only ever appended to
			}
			// every store to the variable stores a loop-fresh value; other uses are loads or call arguments
			refs := a.Referrers()
			if refs == nil {
				return false
			}
			nst := 0
			for _, r := range *refs {
				switch r := r.(type) {
				case *ssa.Store:
					if r.Addr != a || !loopFresh(r.Val, depth+1) {
						return false
					}
					nst++
				case *ssa.UnOp, *ssa.DebugRef:
				case *ssa.Call:
					// passed by address to a callee: callees write only what their contract names (checked at the call)
					if sp := r.Common().StaticCallee(); sp == nil {
						return false
					} else if cs := x.DB.Funcs[funcKey(sp)]; cs != nil && len(cs.Assigns) > 0 {
						return false
					}
				default:
					return false
				}
			}
			return nst > 0
		}
		return false
	}
	x.loopFreshFn = loopFresh
	addComp := func(comp string, s Sort, target *Term) {
		w := ws.comps[comp]
		if w == nil {
			w = &compWrite{sort: s}
			ws.comps[comp] = w
		}
		if target == nil {
			w.unknownTarget = true
		} else {
			w.targets = append(w.targets, target)
		}
	}
	var scanFn func(fn *ssa.Function, blocks []*ssa.BasicBlock, top bool, depth int)
	scanFn = func(fn *ssa.Function, blocks []*ssa.BasicBlock, top bool, depth int) {
		for _, b := range blocks {
			for _, ins := range b.Instrs {
				switch ins := ins.(type) {
				case *ssa.Alloc:
					if !x.info(fn).isCell[ins] {
						ws.allocates = true
					}
				case *ssa.MakeSlice, *ssa.MakeMap, *ssa.MakeClosure, *ssa.MakeInterface:
					ws.allocates = true
				case *ssa.Store:
					x.scanStoreTarget(ins.Addr, fn, top, headVal, addComp)
				case *ssa.MapUpdate:
					mt := types.Unalias(ins.Map.Type()).Underlying().(*types.Map)
					ks, vs := x.TI.SortOf(mt.Key()), x.TI.SortOf(mt.Elem())
					var tgt *Term
					if top {
						if hv, ok := headVal(ins.Map, 0); ok && hv.T != nil {
							tgt = hv.T
						} else if loopFresh(ins.Map, 0) {
							tgt = IntLit(-1)
						}
					}
					addComp(mdComp(ks, vs), mdSort(ks), tgt)
					addComp(mvComp(ks, vs), mvSort(ks, vs), tgt)
				case *ssa.Call:
					ws.calls = true
					x.scanCallWrites(ins, fn, top, depth, headVal, addComp, ws, scanFn)
				}
			}
		}
	}
	ws.appendTarget = func(v ssa.Value) *Term {
		if loopFresh(v, 0) {
			return IntLit(-1)
		}
		if ld, ok := v.(*ssa.UnOp); ok && ld.Op == token.MUL {
			if a, ok := ld.X.(*ssa.Alloc); ok && !lp.blocks[a.Block()] && selfAppendOnly(a, false) {
				var cur *Term
				if fi.isCell[a] {
					cur = st.cells[cellKey{fr.id, a}]
				} else if pv, ok := fr.vals[a]; ok && pv.Loc != nil {
					cur = x.load(st, pv.Loc)
				}
				if cur != nil && cur.Sort == SSlice {
					arr0 := SlArr(cur)
					dup := false
					for _, sa := range ws.selfAppends {
						dup = dup || sa.alloc == a
					}
					if !dup {
						ws.selfAppends = append(ws.selfAppends, selfAppend{alloc: a, arr0: arr0})
					}
					return arr0
				}
			}
		}
		if hv, ok := headVal(v, 0); ok && hv.T != nil && hv.T.Sort == SSlice {
			return SlArr(hv.T)
		}
		return nil
	}
	scanFn(fr.fn, blocks, true, 0)
	return ws
}

func (x *Exec) scanStoreTarget(addr ssa.Value, fn *ssa.Function, top bool, headVal func(ssa.Value, int) (Val, bool), addComp func(string, Sort, *Term)) {
	fi := x.info(fn)
	switch a := addr.(type) {
	case *ssa.Alloc:
		if fi.isCell[a] {
			return
		}
		s := x.TI.SortOf(deref(a.Type()))
		if _, isArr := types.Unalias(deref(a.Type())).Underlying().(*types.Array); isArr {
			return // fresh array
		}
		// heap alloc made inside or outside the loop
		var tgt *Term
		if top {
			if hv, ok := headVal(a, 0); ok && hv.Loc != nil && hv.Loc.kind == locHeap {
				tgt = hv.Loc.addr
			}
		}
		if tgt == nil && top {
			// allocated inside the loop: fresh, nothing old is written; still mark comp as changed at fresh ids only
			addComp(hpComp(s), hpSort(s), IntLit(-1))
			return
		}
		addComp(hpComp(s), hpSort(s), tgt)
	case *ssa.FieldAddr:
		x.scanStoreTarget(a.X, fn, top, headVal, addComp)
	case *ssa.IndexAddr:
		xt := types.Unalias(a.X.Type()).Underlying()
		switch xt := xt.(type) {
		case *types.Slice:
			es := x.TI.SortOf(xt.Elem())
			var tgt *Term
			if top {
				if hv, ok := headVal(a.X, 0); ok && hv.T != nil {
					tgt = SlArr(hv.T)
				} else if x.loopFreshFn != nil && x.loopFreshFn(a.X, 0) {
					tgt = IntLit(-1)
				}
			}
			addComp(hsComp(es), hsSort(es), tgt)
		case *types.Pointer: // pointer to array (varargs temp): fresh
			if arr, ok := types.Unalias(xt.Elem()).Underlying().(*types.Array); ok {
				es := x.TI.SortOf(arr.Elem())
				addComp(hsComp(es), hsSort(es), IntLit(-1))
			}
		}
	default:
		// store through an arbitrary pointer value
		pt, ok := types.Unalias(addr.Type()).Underlying().(*types.Pointer)
		if !ok {
			return
		}
		s := x.TI.SortOf(pt.Elem())
		var tgt *Term
		if top {
			if hv, ok := headVal(addr, 0); ok {
				if hv.T != nil {
					tgt = hv.T
				} else if hv.Loc != nil && hv.Loc.kind == locHeap {
					tgt = hv.Loc.addr
				}
			}
		}
		addComp(hpComp(s), hpSort(s), tgt)
	}
}

func (x *Exec) scanCallWrites(call *ssa.Call, fn *ssa.Function, top bool, depth int, headVal func(ssa.Value, int) (Val, bool),
	addComp func(string, Sort, *Term), ws *loopWriteSet, scanFn func(*ssa.Function, []*ssa.BasicBlock, bool, int)) {
	ws.allocates = true
	cc := call.Common()
	if b, ok := cc.Value.(*ssa.Builtin); ok {
		switch b.Name() {
		case "append":
			st := types.Unalias(cc.Args[0].Type()).Underlying().(*types.Slice)
			es := x.TI.SortOf(st.Elem())
			var tgt *Term
			if top && ws.appendTarget != nil {
				tgt = ws.appendTarget(cc.Args[0])
			}
			addComp(hsComp(es), hsSort(es), tgt)
		case "copy":
			st := types.Unalias(cc.Args[0].Type()).Underlying().(*types.Slice)
			es := x.TI.SortOf(st.Elem())
			var tgt *Term
			if top {
				if hv, ok := headVal(cc.Args[0], 0); ok && hv.T != nil {
					tgt = SlArr(hv.T)
				}
			}
			addComp(hsComp(es), hsSort(es), tgt)
		case "delete":
			mt := types.Unalias(cc.Args[0].Type()).Underlying().(*types.Map)
			ks, vs := x.TI.SortOf(mt.Key()), x.TI.SortOf(mt.Elem())
			addComp(mdComp(ks, vs), mdSort(ks), nil)
		}
		return
	}
	callee := cc.StaticCallee()
	if callee == nil {
		// dynamic call: by the global default frame contract it writes nothing old; fresh objects may appear in any component
		return
	}
	if spec := x.DB.Funcs[funcKey(callee)]; spec != nil {
		for _, a := range spec.Assigns {
			// component of the assigned object: derive from the parameter's static type
			if id, ok := a.(*EIdent); ok {
				for i, p := range callee.Params {
					if p.Name() == id.Name && i < len(cc.Args) {
						x.addAssignedParamComp(p.Type(), cc.Args[i], top, headVal, addComp)
					}
				}
			} else if u, ok := a.(*EUnary); ok && u.Op == "*" {
				if id, ok := u.X.(*EIdent); ok {
					for i, p := range callee.Params {
						if p.Name() == id.Name && i < len(cc.Args) {
							x.addAssignedParamComp(deref(p.Type()), nil, top, headVal, addComp)
							_ = i
						}
					}
				}
			}
		}
		return
	}
	if m := x.externalModel(callee); m != nil {
		for _, w := range m.writes {
			if w < len(cc.Args) {
				x.addAssignedParamComp(cc.Args[w].Type(), cc.Args[w], top, headVal, addComp)
			}
		}
		return
	}
	if callee.Blocks != nil && depth < 4 && x.shouldInline(callee) {
		scanFn(callee, callee.Blocks, false, depth+1)
	}
}

func (x *Exec) addAssignedParamComp(t types.Type, arg ssa.Value, top bool, headVal func(ssa.Value, int) (Val, bool), addComp func(string, Sort, *Term)) {
	switch u := types.Unalias(t).Underlying().(type) {
	case *types.Slice:
		es := x.TI.SortOf(u.Elem())
		var tgt *Term
		if top && arg != nil {
			if hv, ok := headVal(arg, 0); ok && hv.T != nil {
				tgt = SlArr(hv.T)
			}
		}
		addComp(hsComp(es), hsSort(es), tgt)
	case *types.Map:
		ks, vs := x.TI.SortOf(u.Key()), x.TI.SortOf(u.Elem())
		addComp(mdComp(ks, vs), mdSort(ks), nil)
		addComp(mvComp(ks, vs), mvSort(ks, vs), nil)
	case *types.Pointer:
		s := x.TI.SortOf(u.Elem())
		addComp(hpComp(s), hpSort(s), nil)
		// a pointer to a slice: the backing array may be assigned as well
		if sl, ok := types.Unalias(u.Elem()).Underlying().(*types.Slice); ok {
			es := x.TI.SortOf(sl.Elem())
			addComp(hsComp(es), hsSort(es), nil)
		}
	}
}

func litIntStr(s string) (*big.Int, bool) {
	n, ok := new(big.Int).SetString(s, 10)
	return n, ok
}
