package main

// Go types -> SMT sorts; heap component naming; zero values.

import (
	"fmt"
	"go/types"
	"strings"
)

type TypeInfo struct {
	u         *Universe
	sortCache map[string]Sort
	structOf  map[Sort]*types.Struct
	anonN     int
	tagOf     map[string]int // dynamic type tags for interfaces, keyed by type string
	tagTypes  []types.Type
	litText   map[string]string // strlit constant -> the literal
}

func NewTypeInfo(u *Universe) *TypeInfo {
	return &TypeInfo{u: u, sortCache: map[string]Sort{}, structOf: map[Sort]*types.Struct{}, tagOf: map[string]int{}}
}

func sanitize(s string) string {
	var b strings.Builder
	for _, c := range s {
		switch {
		case c >= 'a' && c <= 'z', c >= 'A' && c <= 'Z', c >= '0' && c <= '9', c == '_':
			b.WriteRune(c)
		default:
			b.WriteRune('_')
		}
	}
	return b.String()
}

func shortPkg(path string) string {
	path = strings.TrimPrefix(path, "github.com/Azbesciak/RealDecisionMaker/lib/")
	path = strings.TrimPrefix(path, "github.com/Azbesciak/RealDecisionMaker/")
	if i := strings.LastIndex(path, "/"); i >= 0 {
		path = path[i+1:]
	}
	return sanitize(path)
}

func typeKey(t types.Type) string {
	return types.TypeString(t, nil)
}

// SortOf maps a Go type to its SMT sort.
func (ti *TypeInfo) SortOf(t types.Type) Sort {
	t = types.Unalias(t)
	key := typeKey(t)
	if s, ok := ti.sortCache[key]; ok {
		return s
	}
	var s Sort
	switch tt := t.(type) {
	case *types.Named:
		if st, ok := tt.Underlying().(*types.Struct); ok {
			name := "S_" + sanitize(tt.Obj().Name())
			if tt.Obj().Pkg() != nil {
				name = "S_" + shortPkg(tt.Obj().Pkg().Path()) + "_" + sanitize(tt.Obj().Name())
			}
			s = Sort(name)
			ti.sortCache[key] = s // before recursing (self reference through pointers is an Int anyway)
			ti.declStruct(s, st)
			return s
		}
		s = ti.SortOf(tt.Underlying())
	case *types.Basic:
		switch {
		case tt.Info()&types.IsBoolean != 0:
			s = SBool
		case tt.Info()&types.IsInteger != 0:
			s = SInt
		case tt.Info()&types.IsFloat != 0:
			s = SReal
		case tt.Info()&types.IsString != 0:
			s = SStr
		case tt.Kind() == types.UntypedNil:
			s = SInt
		case tt.Kind() == types.UnsafePointer:
			s = SInt
		default:
			panic("unsupported basic type " + tt.String())
		}
	case *types.Pointer, *types.Map, *types.Signature, *types.Chan:
		s = SInt
	case *types.Slice:
		s = SSlice
	case *types.Array:
		s = ArraySort(SInt, ti.SortOf(tt.Elem()))
	case *types.Interface:
		s = SIface
	case *types.Struct:
		ti.anonN++
		s = Sort(fmt.Sprintf("S_anon%d", ti.anonN))
		ti.sortCache[key] = s
		ti.declStruct(s, tt)
		return s
	case *types.Tuple:
		panic("tuple has no sort")
	case *types.TypeParam:
		panic("type parameters unsupported")
	default:
		panic(fmt.Sprintf("unsupported type %T %s", t, t))
	}
	ti.sortCache[key] = s
	return s
}

func (ti *TypeInfo) declStruct(s Sort, st *types.Struct) {
	d := &Datatype{Name: s, Ctor: "mk_" + string(s)}
	for i := 0; i < st.NumFields(); i++ {
		f := st.Field(i)
		d.Fields = append(d.Fields, DTField{Sel: fmt.Sprintf("%s_%s", string(s), sanitize(f.Name())), Sort: ti.SortOf(f.Type())})
	}
	ti.structOf[s] = st
	ti.u.AddDatatype(d)
}

func mangleSort(s Sort) string {
	return sanitize(strings.ReplaceAll(strings.ReplaceAll(strings.ReplaceAll(string(s), "(Array ", "A"), ")", ""), " ", "_"))
}

// heap component names
func hsComp(elem Sort) string    { return "HS_" + mangleSort(elem) }
func hpComp(elem Sort) string    { return "HP_" + mangleSort(elem) }
func mdComp(k, v Sort) string    { return "MD_" + mangleSort(k) + "_" + mangleSort(v) }
func mvComp(k, v Sort) string    { return "MV_" + mangleSort(k) + "_" + mangleSort(v) }
func hsSort(elem Sort) Sort      { return ArraySort(SInt, ArraySort(SInt, elem)) }
func hpSort(elem Sort) Sort      { return ArraySort(SInt, elem) }
func mdSort(k Sort) Sort         { return ArraySort(SInt, ArraySort(k, SBool)) }
func mvSort(k, v Sort) Sort      { return ArraySort(SInt, ArraySort(k, v)) }
func isHeapComp(name string) bool {
	return strings.HasPrefix(name, "HS_") || strings.HasPrefix(name, "HP_") || strings.HasPrefix(name, "MD_") || strings.HasPrefix(name, "MV_")
}

// struct helpers
func (ti *TypeInfo) structFields(s Sort) *Datatype { return ti.u.datatypes[s] }

func (ti *TypeInfo) FieldSel(structSort Sort, i int, v *Term) *Term {
	d := ti.u.datatypes[structSort]
	if d == nil {
		panic("not a struct sort: " + string(structSort))
	}
	f := d.Fields[i]
	if v.Kind == kApp && v.Op == d.Ctor && len(v.Args) == len(d.Fields) {
		return v.Args[i]
	}
	return App(f.Sel, f.Sort, v)
}

func (ti *TypeInfo) FieldUpd(structSort Sort, i int, v *Term, nv *Term) *Term {
	d := ti.u.datatypes[structSort]
	args := make([]*Term, len(d.Fields))
	for j := range d.Fields {
		if j == i {
			args[j] = nv
		} else {
			args[j] = ti.FieldSel(structSort, j, v)
		}
	}
	return App(d.Ctor, structSort, args...)
}

func (ti *TypeInfo) MkStruct(structSort Sort, args ...*Term) *Term {
	d := ti.u.datatypes[structSort]
	return App(d.Ctor, structSort, args...)
}

// slice helpers
func SlArr(s *Term) *Term { return slField(s, 0, "sl_arr") }
func SlOff(s *Term) *Term { return slField(s, 1, "sl_off") }
func SlLen(s *Term) *Term { return slField(s, 2, "sl_len") }
func SlCap(s *Term) *Term { return slField(s, 3, "sl_cap") }
func slField(s *Term, i int, sel string) *Term {
	if s.Kind == kApp && s.Op == "mk_slice" {
		return s.Args[i]
	}
	return App(sel, SInt, s)
}
func MkSlice(arr, off, ln, cp *Term) *Term { return App("mk_slice", SSlice, arr, off, ln, cp) }

var nilSlice = MkSlice(IntLit(0), IntLit(0), IntLit(0), IntLit(0))

// Zero returns the zero value of a Go type.
func (ti *TypeInfo) Zero(t types.Type) *Term {
	s := ti.SortOf(t)
	return ti.zeroOfSort(s)
}

func (ti *TypeInfo) zeroOfSort(s Sort) *Term {
	switch s {
	case SInt:
		return IntLit(0)
	case SReal:
		return RealLitStr("0")
	case SBool:
		return TFalse
	case SStr:
		return ti.StrLit("")
	case SIface:
		ti.u.Declare("iface_nil", SIface)
		return App("iface_nil", SIface)
	case SSlice:
		return nilSlice
	}
	if s.IsArray() {
		_, v := s.ArrayParts()
		return App("(as const "+string(s)+")", s, ti.zeroOfSort(v))
	}
	if d, ok := ti.u.datatypes[s]; ok {
		args := make([]*Term, len(d.Fields))
		for i, f := range d.Fields {
			args[i] = ti.zeroOfSort(f.Sort)
		}
		return App(d.Ctor, s, args...)
	}
	panic("no zero for sort " + string(s))
}

// string literals become distinct constants
func (ti *TypeInfo) StrLit(v string) *Term {
	name := "strlit_" + sanitize(v)
	if len(name) > 40 || name != "strlit_"+v {
		name = fmt.Sprintf("strlit_%s_%x", sanitize(truncate(v, 16)), fnv(v))
	}
	ti.u.Declare(name, SStr)
	ti.u.strLits[name] = v
	if ti.litText == nil {
		ti.litText = map[string]string{}
	}
	ti.litText[name] = v
	return App(name, SStr)
}

func truncate(s string, n int) string {
	if len(s) > n {
		return s[:n]
	}
	return s
}

func fnv(s string) uint32 {
	h := uint32(2166136261)
	for i := 0; i < len(s); i++ {
		h ^= uint32(s[i])
		h *= 16777619
	}
	return h
}

// Tag returns the dynamic-type tag of a concrete Go type stored in an interface.
func (ti *TypeInfo) Tag(t types.Type) int {
	t = types.Unalias(t)
	k := typeKey(t)
	if n, ok := ti.tagOf[k]; ok {
		return n
	}
	// stable across runs and independent of the order of first use (keeps generated obligations byte-identical)
	n := int(fnv(k)%1000000) + 1
	for used := true; used; {
		used = false
		for _, v := range ti.tagOf {
			if v == n {
				n++
				used = true
			}
		}
	}
	ti.tagOf[k] = n
	ti.tagTypes = append(ti.tagTypes, t)
	return n
}

func (ti *TypeInfo) boxName(t types.Type) string {
	return fmt.Sprintf("box_%d_%s", ti.Tag(t), sanitize(truncate(shortTypeName(t), 30)))
}
func (ti *TypeInfo) unboxName(t types.Type) string {
	return fmt.Sprintf("unbox_%d_%s", ti.Tag(t), sanitize(truncate(shortTypeName(t), 30)))
}

func shortTypeName(t types.Type) string {
	return types.TypeString(t, func(p *types.Package) string { return "" })
}

// Box wraps a concrete value into an interface value.
func (ti *TypeInfo) Box(t types.Type, v *Term) *Term {
	t = types.Unalias(t)
	s := ti.SortOf(t)
	bn, un := ti.boxName(t), ti.unboxName(t)
	if _, ok := ti.u.funcs[bn]; !ok {
		ti.u.Declare(bn, SIface, s)
		ti.u.Declare(un, s, SIface)
		ti.u.Declare("iface_tag", SInt, SIface)
		x := Var("bx", s)
		bx := App(bn, SIface, x)
		ti.u.AddAxiom(bn, Forall([]*Term{x}, And(Eq(App(un, s, bx), x), Eq(App("iface_tag", SInt, bx), IntLit(int64(ti.Tag(t))))), []*Term{bx}))
		i := Var("bi", SIface)
		ui := App(un, s, i)
		ti.u.AddAxiom(un, Forall([]*Term{i}, Implies(Eq(App("iface_tag", SInt, i), IntLit(int64(ti.Tag(t)))), Eq(App(bn, SIface, ui), i)), []*Term{ui}))
		ti.u.AddAxiom("iface_nil", Eq(App("iface_tag", SInt, App("iface_nil", SIface)), IntLit(0)))
		ti.u.Declare("iface_nil", SIface)
	}
	return App(bn, SIface, v)
}

func (ti *TypeInfo) Unbox(t types.Type, v *Term) *Term {
	t = types.Unalias(t)
	s := ti.SortOf(t)
	ti.Box(t, ti.zeroOfSort(s)) // ensure declared
	if v.Kind == kApp && v.Op == ti.boxName(t) {
		return v.Args[0]
	}
	return App(ti.unboxName(t), s, v)
}

func (ti *TypeInfo) IfaceTag(v *Term) *Term {
	ti.u.Declare("iface_tag", SInt, SIface)
	return App("iface_tag", SInt, v)
}

// Sidx: absolute index of element i of a slice with offset off.  Kept as an uninterpreted application (with the
// defining axiom sidx(o,i) = o+i) so that quantifier patterns over element reads do not contain arithmetic.
func Sidx(off, i *Term) *Term {
	if off.Kind == kLit && off.Op == "0" {
		return i
	}
	// sub-slice of a slice: fold the added offset into the index so that both views index the same atomic offset
	if off.Kind == kApp && off.Op == "+" && len(off.Args) == 2 && off.Sort == SInt {
		return Sidx(off.Args[0], Arith("+", off.Args[1], i))
	}
	return App("sidx", SInt, off, i)
}
