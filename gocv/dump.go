package main

import (
	"fmt"
	"os"
	"strings"

	"golang.org/x/tools/go/packages"
	"golang.org/x/tools/go/ssa"
	"golang.org/x/tools/go/ssa/ssautil"
)

func loadProgram(dir string, mode ssa.BuilderMode, patterns ...string) (*ssa.Program, []*ssa.Package, []*packages.Package) {
	cfg := &packages.Config{Mode: packages.LoadAllSyntax, Dir: dir, Tests: false,
		Env: append(os.Environ(), "GOFLAGS=-mod=mod", "GOPROXY=off", "GOSUMDB=off", "GOTOOLCHAIN=local")}
	pkgs, err := packages.Load(cfg, patterns...)
	if err != nil {
		fmt.Fprintln(os.Stderr, "load:", err)
		os.Exit(2)
	}
	if packages.PrintErrors(pkgs) > 0 {
		os.Exit(2)
	}
	prog, spkgs := ssautil.AllPackages(pkgs, mode)
	prog.Build()
	return prog, spkgs, pkgs
}

func cmdDump(args []string) {
	mode := ssa.BuilderMode(0)
	if len(args) > 0 && args[0] == "-naive" {
		mode = ssa.NaiveForm
		args = args[1:]
	}
	prog, _, _ := loadProgram(repoLib, mode, "./...")
	for fn := range ssautil.AllFunctions(prog) {
		name := fn.String()
		for _, a := range args {
			if strings.Contains(name, a) {
				fn.WriteTo(os.Stdout)
			}
		}
	}
}
