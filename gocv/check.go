package main

// gocv check <Cxx> [--thorough]: the registered per-property check.

import (
	"encoding/json"
	"fmt"
	"os"
	"path/filepath"
	"sort"
	"strconv"
	"strings"
	"time"
)

type knownFinding struct {
	Property   string
	Obligation string
	PinnedBy   string
	What       string
}

func loadKnownFindings(path string) []knownFinding {
	data, err := os.ReadFile(path)
	if err != nil {
		return nil
	}
	var out []knownFinding
	for _, line := range strings.Split(string(data), "\n") {
		line = strings.TrimSpace(line)
		if !strings.HasPrefix(line, "finding:") {
			continue
		}
		kf := knownFinding{}
		rest := strings.TrimSpace(strings.TrimPrefix(line, "finding:"))
		// key=value tokens; "what=" takes the rest of the line
		for rest != "" {
			if strings.HasPrefix(rest, "what=") {
				kf.What = strings.TrimPrefix(rest, "what=")
				break
			}
			i := strings.Index(rest, " ")
			tok := rest
			if i >= 0 {
				tok, rest = rest[:i], strings.TrimSpace(rest[i+1:])
			} else {
				rest = ""
			}
			kv := strings.SplitN(tok, "=", 2)
			if len(kv) != 2 {
				continue
			}
			switch kv[0] {
			case "property":
				kf.Property = kv[1]
			case "obligation":
				kf.Obligation = kv[1]
			case "pinned-by":
				kf.PinnedBy = kv[1]
			}
		}
		out = append(out, kf)
	}
	return out
}

type oblSummary struct {
	Name      string   `json:"name"`
	Kind      string   `json:"kind"`
	Function  string   `json:"function"`
	Instances int      `json:"path_instances"`
	Result    string   `json:"result"`
	Solvers   []string `json:"solvers"`
	TimeS     float64  `json:"solver_time_s"`
	Source    string   `json:"contract_source,omitempty"`
}

func cmdCheck(args []string) {
	start := time.Now()
	if len(args) < 1 {
		fmt.Fprintln(os.Stderr, "usage: gocv check <Cxx> [--thorough]")
		os.Exit(2)
	}
	prop := args[0]
	tier := "quick"
	for i, a := range args[1:] {
		if a == "--thorough" {
			tier = "thorough"
		}
		if a == "--replay" {
			if i+2 >= len(args) {
				fmt.Fprintln(os.Stderr, "usage: gocv check <Cxx> --replay <replay file>")
				os.Exit(2)
			}
			os.Exit(cmdReplayFile(prop, args[i+2]))
		}
	}
	if os.Getenv("VERIF_TIER") == "thorough" {
		tier = "thorough"
	}
	seed := 0
	if s := os.Getenv("VERIF_SEED"); s != "" {
		seed, _ = strconv.Atoi(s)
	}
	timeout, confirm := 20, false
	if tier == "thorough" {
		timeout, confirm = 120, true
	}
	verifRoot := "/verif"
	if r := os.Getenv("GOCV_ROOT"); r != "" {
		verifRoot = r
	}
	// scratch runs (selftest, experiments) must not overwrite the evidence / replay files of the registered checks
	outRoot := verifRoot
	if r := os.Getenv("GOCV_SCRATCH"); r != "" {
		outRoot = r
		os.MkdirAll(outRoot, 0o755)
	}
	w, err := loadWorld()
	if err != nil {
		fmt.Fprintln(os.Stderr, "engine error:", err)
		os.Exit(2)
	}
	// C09 (nothing shared is written): besides the contracts tagged C09, the FRAME obligations of every function under contract
	allFrames := prop == "C09"
	reps := w.generate(func(fs *FuncSpec) bool { return allFrames || specMentions(fs, prop) })
	var all []*Obligation
	var refused []string
	var fuc []string
	var notes []string
	for _, r := range reps {
		fuc = append(fuc, strings.TrimPrefix(r.Func, "github.com/Azbesciak/RealDecisionMaker/lib/"))
		if r.Err != nil {
			refused = append(refused, r.Err.Error())
			all = append(all, &Obligation{Name: shortKey(r.Func) + "#generated", Func: shortKey(r.Func), Kind: "refused", Props: []string{prop},
				Src: r.Spec.Src, Goal: TFalse, Result: "refused", Model: r.Err.Error()})
			continue
		}
		for _, n := range r.Notes {
			notes = append(notes, shortKey(r.Func)+": "+n)
		}
		for _, o := range r.Obls {
			if hasProp(o.Props, prop) {
				all = append(all, o)
			} else if allFrames && strings.HasPrefix(o.Kind, "frame") {
				o.Props = append(append([]string{}, o.Props...), prop)
				all = append(all, o)
			}
		}
	}
	all = append(all, w.lemmaObligations(func(l *Lemma) bool { return hasProp(l.Props, prop) })...)
	{
		// zero-annotation frame sweep (sweep.go): for C09 over every function of the library, for the other properties over
		// the functions in the files the property is anchored in and in lib/utils (the seeded generator lives there)
		n, fsAll := w.sweep()
		var fs []sweepFinding
		if prop == "C09" {
			fs = fsAll
		} else {
			files := anchoredFiles(filepath.Join(verifRoot, "properties.jsonl"), prop)
			n = 0
			for _, f := range fsAll {
				file := f.Pos
				if i := strings.Index(file, ".go:"); i >= 0 {
					file = file[:i+3]
				}
				rel := strings.TrimPrefix(file, strings.TrimSuffix(repoLib, "lib"))
				if files[rel] || strings.HasPrefix(rel, "lib/utils/") {
					fs = append(fs, f)
				}
			}
			for range files {
				n++
			}
		}
		bad := map[string][]sweepFinding{}
		for _, f := range fs {
			k := f.Func + "#sweep.no_shared_state"
			if f.Kind == "endless_recursion" {
				k = f.Func + "#sweep.no_endless_recursion"
			}
			if f.Kind == "modelled_wrapper" {
				k = f.Func + "#sweep.body_is_what_the_assumed_model_describes"
			}
			bad[k] = append(bad[k], f)
		}
		all = append(all, &Obligation{Name: "sweep#frame.no_shared_state.all_functions", Func: "sweep", Kind: "sweep", Props: []string{prop},
			Src: fmt.Sprintf("sweep for writes to package-level variables and long-lived receivers (direct, or through a callee that writes through a parameter), ambient state (clock, process-wide random source, environment, files), concurrency primitives, and String()/Error() methods that format their own receiver; scope size %d", n),
			Goal: TTrue, Result: "unsat", Solver: "syntactic"})
		for fn, ff := range bad {
			var ws []string
			for _, f := range ff {
				ws = append(ws, f.Kind+": "+f.What+" ("+f.Pos+")")
			}
			all = append(all, &Obligation{Name: fn, Func: fn[:strings.Index(fn, "#")], Kind: "sweep", Props: []string{prop},
				Src: strings.Join(ws, "; "), Goal: TFalse, Result: "sat", Solver: "syntactic", Model: strings.Join(ws, "\n")})
		}
	}
	all = append(all, w.wireObligations(prop)...)
	dir := filepath.Join(outRoot, "out", prop)
	os.RemoveAll(dir)
	known := loadKnownFindings(filepath.Join(verifRoot, "known-findings.txt"))
	for _, k := range known {
		failfastIgnore[k.Obligation] = true
	}
	dischargeAll(w.x.U, all, dir, timeout, confirm, 10)
	// aggregate by name
	byName := map[string]*oblSummary{}
	var names []string
	failed := map[string][]*Obligation{}
	vacuous := []string{}
	nObl, nDis := 0, 0
	solverTime := 0.0
	backends := map[string]int{}
	retCov := map[string][2]int{}
	for _, o := range all {
		if o.Cover && o.Label == "return" {
			c := retCov[o.Func]
			c[0]++
			if o.Result == "unsat" {
				c[1]++
			}
			retCov[o.Func] = c
		}
	}
	for f, c := range retCov {
		if c[0] > 0 && c[0] == c[1] {
			vacuous = append(vacuous, f+"#cover.return (every returning path contradictory)")
		}
	}
	for _, o := range all {
		if o.Cover {
			if o.Result == "unsat" && o.Label != "return" {
				vacuous = append(vacuous, o.Name)
			}
			continue
		}
		s := byName[o.Name]
		if s == nil {
			s = &oblSummary{Name: o.Name, Kind: o.Kind, Function: o.Func, Result: "unsat", Source: o.Src}
			byName[o.Name] = s
			names = append(names, o.Name)
		}
		s.Instances++
		s.TimeS += o.TimeS
		solverTime += o.TimeS
		found := false
		for _, sv := range s.Solvers {
			if sv == o.Solver {
				found = true
			}
		}
		if !found && o.Solver != "" {
			s.Solvers = append(s.Solvers, o.Solver)
		}
		backends[o.Solver]++
		nObl++
		if o.Result == "unsat" {
			nDis++
		} else if o.Result == "skipped" {
			// fail-fast run (seeded changes only): not run, not a verdict
			s.Result = "skipped"
		} else {
			s.Result = o.Result
			failed[o.Name] = append(failed[o.Name], o)
		}
	}
	sort.Strings(names)
	// verdicts
	exit := 0
	var violationLines []string
	var knownLines []string
	knownCount := 0
	replayDir := filepath.Join(outRoot, "replays", prop)
	os.MkdirAll(replayDir, 0o755)
	var fnames []string
	for n := range failed {
		fnames = append(fnames, n)
	}
	sort.Strings(fnames)
	for _, n := range fnames {
		// known finding?
		var kf *knownFinding
		for i := range known {
			if known[i].Property == prop && known[i].Obligation == n {
				kf = &known[i]
			}
		}
		if kf != nil {
			pinOK := true
			if kf.PinnedBy != "" {
				ps, ok := byName[kf.PinnedBy]
				pinOK = ok && ps.Result == "unsat"
			}
			// a known finding only covers failures that come with the recorded behaviour
			if pinOK {
				knownLines = append(knownLines, fmt.Sprintf("KNOWN-FINDING: property=%s %s", prop, kf.What))
				knownCount += len(failed[n])
				continue
			}
		}
		o := failed[n][0]
		rp := filepath.Join(replayDir, sanitizeFile(n)+".json")
		rec := map[string]interface{}{
			"property": prop, "obligation": n, "function": o.Func, "kind": o.Kind, "contract_source": o.Src,
			"solver_result": o.Result, "solver": o.Solver, "solver_output": o.Model, "smt_file": o.File,
			"failing_path_instances": len(failed[n]),
			"replayed_on_real_code":  false,
			"rerun":                  "cd /verif && ./check " + prop,
		}
		suffix := " no-failing-input-found"
		if o.Result == "sat" {
			if ok, info := tryReplay(w, o, rec); ok {
				suffix = ""
				rec["replayed_on_real_code"] = true
				rec["replay"] = info
			} else if info != "" {
				rec["replay_note"] = info
			}
		}
		data, _ := json.MarshalIndent(rec, "", " ")
		os.WriteFile(rp, data, 0o644)
		violationLines = append(violationLines, fmt.Sprintf("VIOLATION property=%s replay=%s obligation=%s result=%s%s", prop, rp, n, o.Result, suffix))
		exit = 1
	}
	for _, l := range knownLines {
		fmt.Println(l)
	}
	for _, l := range violationLines {
		fmt.Println(l)
	}
	if len(vacuous) > 0 {
		fmt.Println("ENGINE-ERROR vacuous contract (unsatisfiable assumptions):", strings.Join(vacuous, ", "))
		if exit == 0 {
			exit = 2
		}
	}
	if nObl == 0 {
		fmt.Println("ENGINE-ERROR no obligations generated for", prop)
		exit = 2
	}
	// evidence
	var per []*oblSummary
	var samples []interface{}
	for _, n := range names {
		per = append(per, byName[n])
	}
	for _, o := range all {
		if o.Cover || o.Solver == "syntactic" || o.File == "" {
			continue
		}
		if len(samples) < 3 && (o.Kind == "ensures" || o.Kind == "lemma" || strings.HasPrefix(o.Kind, "loop")) {
			samples = append(samples, map[string]interface{}{"obligation": o.Name, "contract_source": o.Src, "result": o.Result, "solver": o.Solver,
				"goal_smt": truncate(o.Goal.String(), 1500), "assumption_count": len(o.Assumptions)})
		}
	}
	if len(samples) == 0 {
		for _, o := range all {
			if !o.Cover {
				samples = append(samples, map[string]interface{}{"obligation": o.Name, "contract_source": o.Src, "result": o.Result, "solver": o.Solver})
				break
			}
		}
	}
	var assumed []string
	for k, fs := range w.db.Funcs {
		if fs.Trusted {
			assumed = append(assumed, "trusted contract (not verified against body): "+shortKey(k))
		}
		for _, c := range fs.Ensures {
			if c.Assumed {
				assumed = append(assumed, "assumed postcondition (used at call sites, not proved): "+shortKey(k)+" ["+c.Label+"]")
			}
		}
	}
	for k := range w.db.IMeths {
		assumed = append(assumed, "interface method contract (assumed at call sites): "+shortKey(k))
	}
	sort.Strings(assumed)
	var exts []string
	for n, m := range extModels {
		exts = append(exts, n+": "+m.doc)
	}
	sort.Strings(exts)
	trusted := []string{
		"gocv VC generator (this repository, /verif/gocv) and its semantic model of Go (DESIGN.md section 3)",
		"golang.org/x/tools/go/ssa v0.29.0 (naive form) as the representation of the compiled program",
		"SMT solvers: z3 5.1.0 (z3-new), z3 4.8.12, cvc5 1.0 (first definite answer; thorough tier: two must agree)",
		"assumed contracts of external functions (see assumed_external_contracts)",
	}
	cov := map[string]interface{}{
		"obligations":                 nObl,
		"discharged":                  nDis + knownCount*0,
		"known_finding_instances":     knownCount,
		"checker_cmd":                 "cd /verif && ./check " + prop + map[bool]string{true: " --thorough", false: ""}[tier == "thorough"],
		"trusted_base":                trusted,
		"functions_under_contract":    fuc,
		"distinct_obligations":        len(names),
		"per_obligation":              per,
		"solver_time_s":               round3(solverTime),
		"discharged_by_backend":       backends,
		"samples":                     samples,
		"refused_functions":           refused,
		"assumed_contracts_in_repo":   assumed,
		"assumed_external_contracts":  exts,
		"generator_notes":             notes,
		"bounded_checks":              []string{},
		"vacuity_covers_checked":      countCovers(all),
		"contract_files":              w.db.Files,
		"solver_timeout_s":            timeout,
	}
	if exit == 0 && knownCount > 0 {
		// obligations suppressed by a known finding are not counted as discharged or as obligations of the pass
		cov["obligations"] = nObl - knownCount
	}
	ev := map[string]interface{}{
		"property_id": prop, "tier": tier, "seed": seed, "level": "proof", "coverage": cov,
		"assumptions": standardAssumptions(),
		"wall_s":      round3(time.Since(start).Seconds()),
		"violations":  len(violationLines),
	}
	os.MkdirAll(filepath.Join(outRoot, "evidence"), 0o755)
	data, _ := json.MarshalIndent(ev, "", " ")
	os.WriteFile(filepath.Join(outRoot, "evidence", prop+".json"), data, 0o644)
	fmt.Printf("%s %s: %d obligations (%d distinct), %d discharged, %d known-finding instances, %d violations, %d functions under contract, %.1fs\n",
		prop, tier, nObl, len(names), nDis, knownCount, len(violationLines), len(fuc), time.Since(start).Seconds())
	os.Exit(exit)
}

func countCovers(all []*Obligation) int {
	n := 0
	for _, o := range all {
		if o.Cover {
			n++
		}
	}
	return n
}

func round3(f float64) float64 { return float64(int(f*1000+0.5)) / 1000 }

func shortKey(k string) string {
	return strings.TrimPrefix(k, "github.com/Azbesciak/RealDecisionMaker/lib/")
}

func standardAssumptions() []string {
	return []string{
		"float64 is treated as mathematical real arithmetic (no rounding, NaN, Inf, -0); int as mathematical integers (a conversion to a narrower or differently signed integer type is the identity inside the target range and an uninterpreted wrap outside it)",
		"partial correctness: postconditions are proved for normally returning executions; runtime panics (index, nil map, type assertion, division) are only obligations in functions with nopanic/panics_if/panics_iff clauses; nil-pointer dereference is never an obligation",
		"termination is not proved except where a lemma states a decreasing measure",
		"strings are an uninterpreted sort with equality, a strict total order and uninterpreted concat/prefix/itoa; contents and error texts are not modelled",
		"calls are replaced by the callee's contract; callees without contract are inlined when loop-free and small, otherwise treated as opaque (result unconstrained) under the global default frame contract 'writes only memory it allocated'",
		"append growth: the new capacity is any value >= the needed length; in-place append when capacity suffices (both branches explored); after a call to a library function that may append to a slice argument (summary over static calls) the elements between len and cap of that argument are unknown; calls through interfaces and function values are not covered by this summary",
		"map iteration visits keys in an arbitrary order (ghost visited-set model)",
		"abstract spec functions and predicates keyed on an interface value carry no heap argument: the object behind it is assumed not to change while the abstract value is in use; an argument whose dynamic type is statically known gets that type's definitions ('refines ... with') at the call",
		"pointers into a slice element returned across a call are modelled as separate objects (writes through them are not seen through the slice)",
		"external functions (fmt, math, sort, strings, strconv, math/rand, mapstructure) are used through assumed contracts listed in coverage.assumed_external_contracts",
		"recursive spec functions are uninterpreted symbols unfolded at use sites (fuel 2); their definitions are assumed well-founded (each decreases an integer argument)",
		"closed world: the implementations of each interface are those defined in /repo/lib",
	}
}

// tryReplay is implemented in replay.go


// cmdReplayFile re-runs a recorded replay: the harness kept in the replay file is executed against /repo's current tree.
// Exit 1 (and a VIOLATION line) when the recorded behaviour is still there, 0 when it is gone, 2 when the file holds no harness.
func cmdReplayFile(prop, path string) int {
	data, err := os.ReadFile(path)
	if err != nil {
		fmt.Fprintln(os.Stderr, "cannot read", path)
		return 2
	}
	var rec map[string]interface{}
	if json.Unmarshal(data, &rec) != nil {
		fmt.Fprintln(os.Stderr, "not a replay file:", path)
		return 2
	}
	fmt.Printf("obligation: %v\ncontract:   %v\nsolver:     %v (%v)\n", rec["obligation"], rec["contract_source"], rec["solver_result"], rec["solver"])
	h, _ := rec["replay_harness"].(string)
	dir, _ := rec["replay_package_dir"].(string)
	if h == "" || dir == "" {
		fmt.Println("this violation carries no executable replay (no-failing-input-found); the solver output is in the file; to re-decide it run: ./check", prop)
		return 2
	}
	out, ran := runHarness(dir, h)
	fmt.Print(out)
	if !ran {
		return 2
	}
	want, _ := rec["replay_expect"].(string)
	if want != "" && strings.Contains(out, want) {
		fmt.Printf("VIOLATION property=%s replay=%s\n", prop, path)
		return 1
	}
	fmt.Println("the recorded behaviour is not reproduced on the current tree")
	return 0
}


// anchoredFiles: the files a property names in anchors.files.
func anchoredFiles(path, prop string) map[string]bool {
	out := map[string]bool{}
	data, err := os.ReadFile(path)
	if err != nil {
		return out
	}
	for _, line := range strings.Split(string(data), "\n") {
		var p struct {
			ID      string `json:"id"`
			Anchors struct {
				Files []string `json:"files"`
			} `json:"anchors"`
		}
		if json.Unmarshal([]byte(line), &p) == nil && p.ID == prop {
			for _, f := range p.Anchors.Files {
				out[f] = true
			}
		}
	}
	return out
}
