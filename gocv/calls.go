package main

// Calls: by contract, inlined, builtins, external models, dynamic calls; returns.

import (
	"fmt"
	"go/types"
	"strings"

	"golang.org/x/tools/go/ssa"
	"golang.org/x/tools/go/ssa/ssautil"
)

const libPrefix = "github.com/Azbesciak/RealDecisionMaker/lib/"

func (x *Exec) shouldInline(fn *ssa.Function) bool {
	if fn.Blocks == nil {
		return false
	}
	if spec := x.DB.Funcs[funcKey(fn)]; spec != nil {
		return spec.Inline
	}
	if !strings.HasPrefix(funcKey(fn), libPrefix) {
		// code outside /repo/lib (standard library, dependencies) is never executed symbolically: a model or an opaque call
		return false
	}
	fi := x.info(fn)
	return !fi.hasLoops && fi.ninstr <= x.inlineLimit
}

// calledName: the name under which a callhint refers to a call (method name for interface and method calls, function name otherwise).
func calledName(cc *ssa.CallCommon) string {
	if cc.IsInvoke() {
		return cc.Method.Name()
	}
	if f, ok := cc.Value.(*ssa.Function); ok {
		return f.Name()
	}
	return ""
}

// checkCallHints: obligations "callhint Name cond" of the function under verification, at a call in its own body.
func (x *Exec) checkCallHints(st *State, fr *Frame, call *ssa.Call) {
	vc := x.vc
	if vc == nil || vc.spec == nil || len(vc.spec.CallHints) == 0 || fr.fn != vc.fn || len(st.frames) != 1 {
		return
	}
	name := calledName(call.Common())
	for i, ch := range vc.spec.CallHints {
		if ch.Name != name {
			continue
		}
		env := x.entryEnv(st)
		env.fr = fr
		label := ch.C.Label
		if label == "" {
			label = fmt.Sprintf("%d", i+1)
		}
		rv := x.revealAxioms(env, ch.C.Reveal)
		t := x.evalBool(env, ch.C.E)
		side := append(rv, env.takeSide()...)
		x.oblige(st, "callhint."+name, label, ch.C.Props, t, ch.C.Src+" @ "+x.prog.Fset.Position(call.Pos()).String(), side...)
		st.assume(And(side...))
		st.assume(t)
	}
}

func (x *Exec) stepCall(st *State, fr *Frame, call *ssa.Call) ([]*State, bool) {
	res, adv := x.stepCall1(st, fr, call)
	// last_<Name> in contracts: the result of the most recent call of a function / method of that name in the body of the
	// function under verification (forgotten at every loop cut)
	if name := calledName(call.Common()); name != "" && x.vc != nil && fr.fn == x.vc.fn {
		if _, isTuple := call.Type().(*types.Tuple); !isTuple {
			for _, s := range append([]*State{st}, res...) {
				if s == nil || len(s.frames) == 0 {
					continue
				}
				if v, ok := s.frames[0].vals[call]; ok && v.T != nil && len(s.frames) == 1 {
					s.ghost["last:"+name] = v.T
					if x.lastTypes == nil {
						x.lastTypes = map[string]types.Type{}
					}
					x.lastTypes[name] = call.Type()
				}
			}
		}
	}
	return res, adv
}

func (x *Exec) stepCall1(st *State, fr *Frame, call *ssa.Call) ([]*State, bool) {
	cc := call.Common()
	x.checkCallHints(st, fr, call)
	if b, ok := cc.Value.(*ssa.Builtin); ok {
		return x.stepBuiltin(st, fr, call, b)
	}
	if cc.IsInvoke() {
		return x.stepInvoke(st, fr, call)
	}
	var callee *ssa.Function
	var bindings []Val
	fv := Val{}
	if f, ok := cc.Value.(*ssa.Function); ok {
		callee = f
	} else {
		fv = x.val(st, fr, cc.Value)
		if fv.Clo != nil {
			callee = fv.Clo.fn
			bindings = fv.Clo.bindings
		}
	}
	var args []Val
	for _, a := range cc.Args {
		args = append(args, x.val(st, fr, a))
	}
	if callee == nil {
		return x.dynamicCall(st, fr, call, fv, args)
	}
	return x.callFunc(st, fr, call, callee, bindings, args)
}

func (x *Exec) callFunc(st *State, fr *Frame, call *ssa.Call, callee *ssa.Function, bindings []Val, args []Val) ([]*State, bool) {
	// inside a comparator summary (evaluated under bound variables) calls must be inlined: a contract's fresh result
	// constant would be shared by all instances of the bound variables
	pureInline := x.pure != nil && callee.Blocks != nil && !x.info(callee).hasLoops && len(st.frames) < 8
	if spec := x.DB.Funcs[funcKey(callee)]; spec != nil && !spec.Inline && !pureInline {
		if callee == x.vc.fn && len(st.frames) == 1 {
			// recursion: use own contract
		}
		return x.callByContract(st, fr, call, callee, spec, bindings, args)
	}
	if m := x.externalModel(callee); m != nil {
		return m.apply(x, st, fr, call, args)
	}
	if callee.Blocks == nil {
		fail("call to external function %s without a model", callee.String())
	}
	depth := len(st.frames)
	recursive := false
	for _, f := range st.frames {
		if f.fn == callee {
			recursive = true
		}
	}
	if (x.shouldInline(callee) || pureInline) && depth < 8 && !recursive {
		nf := &Frame{id: x.nextFrameID(), fn: callee, vals: map[ssa.Value]Val{}, open: map[*Loop]bool{}, callIns: call, depth: depth}
		for i, p := range callee.Params {
			nf.vals[p] = args[i]
		}
		for i, p := range callee.FreeVars {
			if i < len(bindings) {
				nf.vals[p] = bindings[i]
			}
		}
		nf.block = callee.Blocks[0]
		st.frames = append(st.frames, nf)
		return nil, true
	}
	// no contract, not inlinable: opaque under the global default frame contract
	x.note("call to %s is opaque (no contract, not inlinable): result unconstrained", shortFuncName(callee))
	return x.opaqueResult(st, fr, call, "ret_"+callee.Name())
}

func (x *Exec) note(format string, a ...interface{}) {
	s := fmt.Sprintf(format, a...)
	for _, n := range x.vc.notes {
		if n == s {
			return
		}
	}
	x.vc.notes = append(x.vc.notes, s)
}

func (x *Exec) nextFrameID() int {
	x.vc.frameIDs++
	return x.vc.frameIDs
}

// opaqueResult: fresh unconstrained results; allocation counter may have grown; old memory untouched.
func (x *Exec) opaqueResult(st *State, fr *Frame, call *ssa.Call, hint string) ([]*State, bool) {
	x.bumpAlloc(st)
	fr.vals[call] = x.freshResult(st, call.Type(), hint)
	fr.idx++
	return nil, true
}

func (x *Exec) bumpAlloc(st *State) {
	nb := x.freshVar("alloc_c", SInt)
	st.assume(Cmp(">=", nb, st.alloc))
	st.alloc = nb
	x.allocRankN++
	allocRanks[nb.Op] = x.allocRankN
}

func (x *Exec) freshResult(st *State, t types.Type, hint string) Val {
	if tup, ok := t.(*types.Tuple); ok {
		if tup.Len() == 0 {
			return Val{}
		}
		var vs []Val
		for i := 0; i < tup.Len(); i++ {
			v := x.freshVar(fmt.Sprintf("%s_%d", hint, i), x.TI.SortOf(tup.At(i).Type()))
			st.assume(x.wf(st, v, tup.At(i).Type()))
			vs = append(vs, Val{T: v})
		}
		return Val{Tuple: vs}
	}
	v := x.freshVar(hint, x.TI.SortOf(t))
	st.assume(x.wf(st, v, t))
	x.assumeDeepWf(st, v, t, 0)
	return Val{T: v}
}

// assumeDeepWf: what a returned reference points to is well-formed with respect to the allocation counter at return
// (everything reachable from a result exists when the callee returns).
func (x *Exec) assumeDeepWf(st *State, v *Term, t types.Type, depth int) {
	if depth > 2 {
		return
	}
	switch u := types.Unalias(t).Underlying().(type) {
	case *types.Pointer:
		s := x.TI.SortOf(u.Elem())
		pointee := Select(x.heapGet(st, hpComp(s), hpSort(s)), v)
		w := x.wf(st, pointee, u.Elem())
		if !w.IsTrue() {
			st.assume(Implies(Not(Eq(v, IntLit(0))), w))
		}
		x.assumeDeepWf(st, pointee, u.Elem(), depth+1)
	case *types.Slice:
		es := x.TI.SortOf(u.Elem())
		i := Var("wi", SInt)
		e := Select(Select(x.heapGet(st, hsComp(es), hsSort(es)), SlArr(v)), i)
		w := x.wf(st, e, u.Elem())
		if !w.IsTrue() {
			st.assume(Forall([]*Term{i}, w, []*Term{e}))
		}
	case *types.Struct:
		s := x.TI.SortOf(t)
		for i := 0; i < u.NumFields(); i++ {
			x.assumeDeepWf(st, x.TI.FieldSel(s, i, v), u.Field(i).Type(), depth+1)
		}
	}
}

func (x *Exec) doReturn(st *State, fr *Frame, rs []Val, ins *ssa.Return) ([]*State, bool) {
	if x.pure != nil && len(st.frames) == x.pure.depth {
		x.pure.results = append(x.pure.results, pureResult{pc: append([]*Term{}, st.pc[x.pure.basePC:]...), rets: rs})
		return nil, false
	}
	if len(st.frames) == 1 {
		x.topReturn(st, fr, rs, ins)
		return nil, false
	}
	st.frames = st.frames[:len(st.frames)-1]
	caller := st.top()
	call := fr.callIns.(*ssa.Call)
	switch len(rs) {
	case 0:
		caller.vals[call] = Val{}
	case 1:
		caller.vals[call] = rs[0]
	default:
		caller.vals[call] = Val{Tuple: rs}
	}
	caller.idx++
	return nil, true
}

func (x *Exec) topReturn(st *State, fr *Frame, rs []Val, ins *ssa.Return) {
	vc := x.vc
	vc.retPaths++
	// vacuity guard: the assumptions collected along a returning path should be satisfiable (checked per function:
	// at least one returning path must not be refutable)
	vc.obls = append(vc.obls, &Obligation{Name: shortFuncName(vc.fn) + "#cover.return", Func: shortFuncName(vc.fn), Kind: "cover", Label: "return",
		Props: vc.spec.Props, Src: x.prog.Fset.Position(ins.Pos()).String(), Assumptions: append([]*Term{}, st.pc...), Goal: TFalse, Cover: true, Path: vc.paths})
	env := x.entryEnv(st)
	res := fr.fn.Signature.Results()
	for i, r := range rs {
		t := x.term(st, r, res.At(i).Type())
		sv := SV{T: t, Typ: res.At(i).Type()}
		env.vars[fmt.Sprintf("result%d", i)] = sv
		if res.At(i).Name() != "" {
			env.vars[res.At(i).Name()] = sv
		}
		if _, isParam := vc.paramEnv["result"]; len(rs) == 1 && !isParam {
			env.vars["result"] = sv // (a parameter called result keeps its name; the return value is result0)
		}
	}
	src := x.prog.Fset.Position(ins.Pos()).String()
	var rts []*Term
	for i, r := range rs {
		rts = append(rts, x.term(st, r, res.At(i).Type()))
	}
	x.pendingReplay = x.replayInfo(st, rts, "returns")
	defer func() { x.pendingReplay = nil }()
	if len(vc.spec.ReturnHints) > 0 {
		henv := x.entryEnv(st)
		henv.fr = fr
		for k, v := range env.vars {
			henv.vars[k] = v
		}
		for i, c := range vc.spec.ReturnHints {
			label := c.Label
			if label == "" {
				label = fmt.Sprintf("%d", i+1)
			}
			rv := x.revealAxioms(henv, c.Reveal)
			t := x.evalBool(henv, c.E)
			side := append(rv, henv.takeSide()...)
			x.oblige(st, "returnhint", label, c.Props, t, c.Src+" @ "+src, side...)
			st.assume(And(henv.takeSide()...))
			st.assume(t)
		}
	}
	for i, c := range vc.spec.Ensures {
		if c.Assumed {
			continue // used at call sites only; reported as an assumption
		}
		label := c.Label
		if label == "" {
			label = fmt.Sprintf("%d", i+1)
		}
		rv := x.revealAxioms(env, c.Reveal)
		t := x.evalBool(env, c.E)
		side := append(rv, env.takeSide()...)
		x.oblige(st, "ensures", label, c.Props, t, c.Src+" @ "+src, side...)
	}
	// panics_iff: a normal return means the condition did not hold
	oenv := x.entryEnvOld()
	for i, c := range vc.spec.PanicsIff {
		label := c.Label
		if label == "" {
			label = fmt.Sprintf("%d", i+1)
		}
		t := x.evalBool(oenv, c.E)
		side := oenv.takeSide()
		x.oblige(st, "panics.iff_returns", label, c.Props, Not(t), c.Src+" @ "+src, side...)
	}
}

// ---------------------------------------------------------------------------
// call by contract

func (x *Exec) callByContract(st *State, fr *Frame, call *ssa.Call, callee *ssa.Function, spec *FuncSpec, bindings []Val, args []Val) ([]*State, bool) {
	nmat := len(st.mats)
	penv := map[string]SV{}
	for i, p := range callee.Params {
		t := x.term(st, args[i], p.Type())
		penv[p.Name()] = SV{T: t, Typ: p.Type()}
	}
	for i, p := range callee.FreeVars {
		if i < len(bindings) {
			t := x.term(st, bindings[i], p.Type())
			penv["&"+p.Name()] = SV{T: t, Typ: p.Type()}
		}
	}
	// an argument boxed from a statically known type: the abstract spec functions of its interface take that type's definitions
	for i, p := range callee.Params {
		if _, isIface := types.Unalias(p.Type()).Underlying().(*types.Interface); isIface {
			x.linkAbstractDefinitions(st, penv[p.Name()], p.Type(), args[i])
		}
	}
	pre := st.snapshot()
	env := &Env{x: x, st: pre, old: pre, vars: copyVars(penv), pkg: callee.Package(), allocOld: pre.alloc}
	cname := callee.Name()
	if callee.Signature.Recv() != nil {
		cname = strings.TrimPrefix(shortFuncName(callee), shortPkgName(callee.Package().Pkg.Path())+".")
	}
	for i, c := range spec.Requires {
		label := c.Label
		if label == "" {
			label = fmt.Sprintf("%d", i+1)
		}
		t := x.evalBool(env, c.E)
		side := env.takeSide()
		x.oblige(st, "call."+sanitize(cname)+".requires", label, nil, t, c.Src+" @ "+x.prog.Fset.Position(call.Pos()).String(), side...)
		st.assume(And(side...))
		st.assume(t)
	}
	// panic behaviour of the callee
	var succ []*State
	var pconds []*Term
	for _, c := range append(append([]*Clause{}, spec.PanicsIf...), spec.PanicsIff...) {
		pconds = append(pconds, x.evalBool(env, c.E))
		st.assume(And(env.takeSide()...))
	}
	if x.vc.trackPanics && !spec.NoPanic {
		ps := st.clone()
		if len(pconds) > 0 {
			ps.assume(Or(pconds...))
		}
		// the callee panics here: the caller panics too
		saved := x.vc.paths
		x.doPanic(ps, "callee panic", call.Pos())
		_ = saved
	}
	for _, c := range spec.PanicsIff {
		t := x.evalBool(env, c.E)
		st.assume(And(env.takeSide()...))
		st.assume(Not(t))
	}
	// assigned objects
	type asg struct {
		id   *Term
		comp []string
		srt  []Sort
	}
	var asgs []asg
	for _, a := range spec.Assigns {
		sv := x.eval(env, a)
		st.assume(And(env.takeSide()...))
		id := x.idOf(sv)
		x.frameCheck(st, id, "call."+sanitize(cname)+".assigns")
		var as asg
		as.id = id
		switch u := types.Unalias(sv.Typ).Underlying().(type) {
		case *types.Slice:
			es := x.TI.SortOf(u.Elem())
			as.comp, as.srt = []string{hsComp(es)}, []Sort{hsSort(es)}
		case *types.Map:
			ks, vs := x.TI.SortOf(u.Key()), x.TI.SortOf(u.Elem())
			as.comp, as.srt = []string{mdComp(ks, vs), mvComp(ks, vs)}, []Sort{mdSort(ks), mvSort(ks, vs)}
		case *types.Pointer:
			s := x.TI.SortOf(u.Elem())
			as.comp, as.srt = []string{hpComp(s)}, []Sort{hpSort(s)}
		default:
			fail("assigns clause of %s: unsupported type %s", cname, sv.Typ)
		}
		asgs = append(asgs, as)
	}
	// post state: allocation counter grows, assigned components are havocked outside the frame
	allocPre := st.alloc
	x.bumpAlloc(st)
	havocked := map[string]bool{}
	havoc := func(comp string, srt Sort) *Term {
		if havocked[comp] {
			return st.heap[comp]
		}
		havocked[comp] = true
		preH := x.heapGet(pre, comp, srt)
		// Only the objects named in assigns change (row-level havoc).  Objects the callee allocates "appear" at ids whose
		// pre-state content was never constrained, so keeping the same term there is sound (lazy allocation).
		_, rowSort := srt.ArrayParts()
		nh := preH
		for _, as := range asgs {
			for _, c := range as.comp {
				if c == comp {
					row := x.freshVar(comp+"_crow", rowSort)
					nh = Store(nh, as.id, row)
					x.rowWfAssume(st, row, comp, st.alloc)
				}
			}
		}
		st.heap[comp] = nh
		return nh
	}
	for _, as := range asgs {
		for i, c := range as.comp {
			havoc(c, as.srt[i])
		}
	}
	// a callee that appends to a slice it is given may write into that slice's spare capacity (an in-place append is not a
	// frame violation, see DESIGN 12.2): the elements between len and cap of such an argument are unknown afterwards
	for i := range x.appendsTo(callee) {
		if i >= len(callee.Params) {
			continue
		}
		sl, ok := types.Unalias(callee.Params[i].Type()).Underlying().(*types.Slice)
		if !ok {
			continue
		}
		at := penv[callee.Params[i].Name()].T
		if at == nil || at.Sort != SSlice {
			continue
		}
		es := x.TI.SortOf(sl.Elem())
		comp, cs := hsComp(es), hsSort(es)
		already := false
		for _, as := range asgs {
			for _, c := range as.comp {
				if c == comp && as.id.String() == SlArr(at).String() {
					already = true
				}
			}
		}
		if already {
			continue
		}
		h := x.heapGet(st, comp, cs)
		_, rowSort := cs.ArrayParts()
		row := x.freshVar(comp+"_sparerow", rowSort)
		x.rowWfAssume(st, row, comp, st.alloc)
		k := Var("spk", SInt)
		lo := Arith("+", SlOff(at), SlLen(at))
		hi := Arith("+", SlOff(at), SlCap(at))
		oldRow := Select(h, SlArr(at))
		st.assume(Forall([]*Term{k}, Implies(Or(Cmp("<", k, lo), Cmp(">=", k, hi)), Eq(Select(row, k), Select(oldRow, k))), []*Term{Select(row, k)}))
		st.heap[comp] = Store(h, SlArr(at), row)
	}
	// results
	res := x.freshResult(st, call.Type(), "ret_"+sanitize(callee.Name()))
	post := &Env{x: x, st: st, old: pre, vars: copyVars(penv), pkg: callee.Package(), allocOld: allocPre}
	sig := callee.Signature.Results()
	bind := func(i int, v Val) {
		sv := SV{T: v.T, Typ: sig.At(i).Type()}
		post.vars[fmt.Sprintf("result%d", i)] = sv
		if sig.At(i).Name() != "" {
			post.vars[sig.At(i).Name()] = sv
		}
		if _, isParam := penv["result"]; sig.Len() == 1 && !isParam {
			post.vars["result"] = sv // (a parameter called result keeps its name; the return value is result0)
		}
	}
	if sig.Len() == 1 {
		bind(0, res)
	} else {
		for i := range res.Tuple {
			bind(i, res.Tuple[i])
		}
	}
	for _, c := range spec.Ensures {
		t := x.evalBool(post, c.E)
		st.assume(And(post.takeSide()...))
		st.assume(t)
	}
	// write back materialised pointer arguments whose pointee component was havocked
	for _, m := range st.mats[nmat:] {
		s := x.TI.SortOf(m.typ)
		if havocked[hpComp(s)] {
			x.store(st, m.loc, Select(st.heap[hpComp(s)], m.addr), "call."+sanitize(cname)+".writeback")
		}
	}
	fr.vals[call] = res
	fr.idx++
	if len(succ) > 0 {
		return append(succ, st), false
	}
	return nil, true
}

func copyVars(m map[string]SV) map[string]SV {
	n := make(map[string]SV, len(m)+4)
	for k, v := range m {
		n[k] = v
	}
	return n
}

// ---------------------------------------------------------------------------
// interface method calls and dynamic function values

func (x *Exec) stepInvoke(st *State, fr *Frame, call *ssa.Call) ([]*State, bool) {
	cc := call.Common()
	recv := x.val(st, fr, cc.Value)
	var args []Val
	for _, a := range cc.Args {
		args = append(args, x.val(st, fr, a))
	}
	// statically known dynamic type (value was boxed on this path)?
	if recv.T != nil && recv.T.Kind == kApp && strings.HasPrefix(recv.T.Op, "box_") {
		for _, tt := range x.TI.tagTypes {
			if x.TI.boxName(tt) == recv.T.Op {
				if fn := x.prog.LookupMethod(tt, cc.Method.Pkg(), cc.Method.Name()); fn != nil {
					rv := Val{T: recv.T.Args[0]}
					return x.callFunc(st, fr, call, fn, nil, append([]Val{rv}, args...))
				}
			}
		}
	}
	// interface method contract
	it := types.Unalias(cc.Value.Type())
	if n, ok := it.(*types.Named); ok && n.Obj().Pkg() != nil {
		key := n.Obj().Pkg().Path() + "." + n.Obj().Name() + "." + cc.Method.Name()
		if spec := x.DB.IMeths[key]; spec != nil {
			return x.invokeByContract(st, fr, call, spec, recv, args)
		}
	}
	// a method of an embedded interface: the contract is written on the interface that declares it
	if rv := cc.Method.Type().(*types.Signature).Recv(); rv != nil {
		if n, ok := types.Unalias(rv.Type()).(*types.Named); ok && n.Obj().Pkg() != nil {
			key := n.Obj().Pkg().Path() + "." + n.Obj().Name() + "." + cc.Method.Name()
			if spec := x.DB.IMeths[key]; spec != nil {
				return x.invokeByContract(st, fr, call, spec, recv, args)
			}
		}
	}
	x.note("interface call %s.%s is opaque: result unconstrained", cc.Value.Type(), cc.Method.Name())
	return x.opaqueResult(st, fr, call, "ret_"+cc.Method.Name())
}

func (x *Exec) invokeByContract(st *State, fr *Frame, call *ssa.Call, spec *FuncSpec, recv Val, args []Val) ([]*State, bool) {
	cc := call.Common()
	sig := cc.Method.Type().(*types.Signature)
	penv := map[string]SV{"self": {T: recv.T, Typ: cc.Value.Type()}}
	for i := 0; i < sig.Params().Len(); i++ {
		p := sig.Params().At(i)
		name := p.Name()
		if name == "" || name == "_" {
			name = fmt.Sprintf("p%d", i)
		}
		penv[name] = SV{T: x.term(st, args[i], p.Type()), Typ: p.Type()}
	}
	pre := st.snapshot()
	env := &Env{x: x, st: pre, old: pre, vars: copyVars(penv), pkg: fr.fn.Package(), allocOld: pre.alloc}
	for i, c := range spec.Requires {
		label := c.Label
		if label == "" {
			label = fmt.Sprintf("%d", i+1)
		}
		t := x.evalBool(env, c.E)
		side := env.takeSide()
		x.oblige(st, "call."+sanitize(cc.Method.Name())+".requires", label, nil, t, c.Src, side...)
		st.assume(t)
	}
	allocPre := st.alloc
	x.bumpAlloc(st)
	res := x.freshResult(st, call.Type(), "ret_"+sanitize(cc.Method.Name()))
	post := &Env{x: x, st: st, old: pre, vars: copyVars(penv), pkg: fr.fn.Package(), allocOld: allocPre}
	if sig.Results().Len() == 1 {
		post.vars["result"] = SV{T: res.T, Typ: sig.Results().At(0).Type()}
	} else {
		for i := range res.Tuple {
			post.vars[fmt.Sprintf("result%d", i)] = SV{T: res.Tuple[i].T, Typ: sig.Results().At(i).Type()}
		}
	}
	for _, c := range spec.Ensures {
		t := x.evalBool(post, c.E)
		st.assume(And(post.takeSide()...))
		st.assume(t)
	}
	fr.vals[call] = res
	fr.idx++
	return nil, true
}

// dynamicCall: call of a function value that is not statically known (parameter, field, ...).
func (x *Exec) dynamicCall(st *State, fr *Frame, call *ssa.Call, fv Val, args []Val) ([]*State, bool) {
	cc := call.Common()
	// function-typed parameter with a declared behaviour?
	var ps *FnParamSpec
	name := ""
	{
		// the source-level name behind the function value: a parameter, captured variable or local, possibly behind loads
		v := cc.Value
		for i := 0; i < 4 && name == ""; i++ {
			switch vv := v.(type) {
			case *ssa.Parameter:
				name = vv.Name()
			case *ssa.FreeVar:
				name = vv.Name()
			case *ssa.Alloc:
				name = vv.Comment
			case *ssa.FieldAddr:
				// a function kept in a struct field: named ".field" in fnparam clauses
				if st, ok := types.Unalias(deref(vv.X.Type())).Underlying().(*types.Struct); ok {
					name = "." + st.Field(vv.Field).Name()
				}
			case *ssa.UnOp:
				v = vv.X
				continue
			}
			break
		}
		if name != "" {
			ps = x.vc.spec.FnParams[name]
			if len(st.frames) > 1 {
				ps = nil // fnparam contracts belong to the function under verification only
			}
		}
	}
	fterm := fv.T
	if fterm == nil {
		fail("dynamic call through a non-term function value")
	}
	sig := types.Unalias(cc.Value.Type()).Underlying().(*types.Signature)
	// ghost call counter per function value
	ckey := "calls:" + fterm.String()
	cnt, ok := st.ghost[ckey]
	if !ok {
		cnt = IntLit(0)
		for _, f := range st.frames {
			if len(f.open) > 0 {
				// first seen inside a loop: earlier iterations may have called it already
				cnt = x.freshVar("calls_in", SInt)
				st.assume(Cmp(">=", cnt, IntLit(0)))
				break
			}
		}
	}
	x.bumpAlloc(st)
	var res Val
	if ps != nil && ps.Pure && sig.Results().Len() == 1 {
		// result = app(f, args...) : a function of the function value and the argument terms
		var ats []*Term
		var asorts []Sort
		ats = append(ats, fterm)
		asorts = append(asorts, SInt)
		for i, a := range args {
			pt := sig.Params().At(i).Type()
			var t *Term
			if pp, ok := types.Unalias(pt).Underlying().(*types.Pointer); ok {
				// a pure function of a pointer argument is a function of what it points to (the address of a local
				// copy is the same in every iteration and says nothing)
				t = x.load(st, x.loc(st, a, pt))
				_ = pp
			} else {
				t = x.term(st, a, pt)
			}
			ats = append(ats, t)
			asorts = append(asorts, t.Sort)
		}
		rs := x.TI.SortOf(sig.Results().At(0).Type())
		fname := "app_" + mangleSort(rs)
		for _, s := range asorts[1:] {
			fname += "_" + mangleSort(s)
		}
		x.U.Declare(fname, rs, asorts...)
		r := App(fname, rs, ats...)
		st.assume(x.wf(st, r, sig.Results().At(0).Type()))
		res = Val{T: r}
	} else if sig.Results().Len() == 1 && len(args) == 0 {
		// generator-like: the k-th call returns draw(f, k)
		rs := x.TI.SortOf(sig.Results().At(0).Type())
		fname := "draw_" + mangleSort(rs)
		x.U.Declare(fname, rs, SInt, SInt)
		r := App(fname, rs, fterm, cnt)
		res = Val{T: r}
	} else {
		res = x.freshResult(st, call.Type(), "dyn_"+sanitize(name))
	}
	st.ghost[ckey] = Arith("+", cnt, IntLit(1))
	if ps != nil {
		env := x.entryEnv(st)
		if res.T != nil {
			env.vars["result"] = SV{T: res.T, Typ: sig.Results().At(0).Type()}
		}
		for i, a := range args {
			env.vars[fmt.Sprintf("arg%d", i)] = SV{T: x.term(st, a, sig.Params().At(i).Type()), Typ: sig.Params().At(i).Type()}
		}
		for _, c := range ps.Ensures {
			t := x.evalBool(env, c.E)
			st.assume(And(env.takeSide()...))
			st.assume(t)
		}
	} else {
		x.note("dynamic call through %q has no fnparam contract: result unconstrained", name)
	}
	fr.vals[call] = res
	fr.idx++
	return nil, true
}

// ---------------------------------------------------------------------------
// builtins

func (x *Exec) stepBuiltin(st *State, fr *Frame, call *ssa.Call, b *ssa.Builtin) ([]*State, bool) {
	cc := call.Common()
	arg := func(i int) Val { return x.val(st, fr, cc.Args[i]) }
	switch b.Name() {
	case "ssa:deferstack":
		fr.vals[call] = Val{T: IntLit(0)}
	case "len":
		switch u := types.Unalias(cc.Args[0].Type()).Underlying().(type) {
		case *types.Slice:
			fr.vals[call] = Val{T: SlLen(arg(0).T)}
		case *types.Map:
			ks, vs := x.TI.SortOf(u.Key()), x.TI.SortOf(u.Elem())
			md := x.heapGet(st, mdComp(ks, vs), mdSort(ks))
			fn := "card_" + mangleSort(ks)
			x.U.Declare(fn, SInt, ArraySort(ks, SBool))
			m := arg(0).T
			c := App(fn, SInt, Select(md, m))
			st.assume(Cmp(">=", c, IntLit(0)))
			fr.vals[call] = Val{T: Ite(Eq(m, IntLit(0)), IntLit(0), c)}
		case *types.Basic: // string
			x.U.Declare("str_len", SInt, SStr)
			c := App("str_len", SInt, arg(0).T)
			st.assume(Cmp(">=", c, IntLit(0)))
			fr.vals[call] = Val{T: c}
		default:
			fail("len of %s", cc.Args[0].Type())
		}
	case "cap":
		fr.vals[call] = Val{T: SlCap(arg(0).T)}
	case "append":
		return x.stepAppend(st, fr, call)
	case "copy":
		return x.stepCopy(st, fr, call)
	case "delete":
		mt := types.Unalias(cc.Args[0].Type()).Underlying().(*types.Map)
		ks, vs := x.TI.SortOf(mt.Key()), x.TI.SortOf(mt.Elem())
		m := arg(0).T
		k := x.term(st, arg(1), cc.Args[1].Type())
		x.frameCheck(st, m, "delete")
		md := x.heapGet(st, mdComp(ks, vs), mdSort(ks))
		st.heap[mdComp(ks, vs)] = Store(md, m, Store(Select(md, m), k, TFalse))
	default:
		fail("builtin %s", b.Name())
	}
	fr.idx++
	return nil, true
}

func (x *Exec) stepAppend(st *State, fr *Frame, call *ssa.Call) ([]*State, bool) {
	cc := call.Common()
	s := x.val(st, fr, cc.Args[0]).T
	t := x.val(st, fr, cc.Args[1]).T
	el := types.Unalias(cc.Args[0].Type()).Underlying().(*types.Slice).Elem()
	if _, isStr := types.Unalias(cc.Args[1].Type()).Underlying().(*types.Basic); isStr {
		fail("append of string to byte slice")
	}
	comp, cs := x.elemComp(el)
	n := SlLen(t)
	newLen := Arith("+", SlLen(s), n)
	fits := Cmp("<=", newLen, SlCap(s))
	var out []*State
	// branch 1: in place
	if !fits.IsFalse() {
		s1 := st
		var s2 *State
		if !fits.IsTrue() {
			s2 = st.clone()
		}
		f1 := s1.top()
		s1.assume(fits)
		// n == 0: nothing is written
		h := x.heapGet(s1, comp, cs)
		if nl, ok := litInt(n); ok && nl.Int64() == 1 {
			row := Select(h, SlArr(s))
			s1.heap[comp] = Store(h, SlArr(s), Store(row, Sidx(SlOff(s), SlLen(s)), Select(Select(h, SlArr(t)), Sidx(SlOff(t), IntLit(0)))))
		} else if nl, ok := litInt(n); ok && nl.Int64() == 0 {
			// nothing
		} else {
			// general: fresh component with quantified description
			nh := x.freshVar(comp+"_ap", cs)
			a, k := Var("fa", SInt), Var("fk", SInt)
			s1.assume(Forall([]*Term{a}, Implies(Not(Eq(a, SlArr(s))), Eq(Select(nh, a), Select(h, a))), []*Term{Select(nh, a)}))
			base := Arith("+", SlOff(s), SlLen(s))
			inNew := And(Cmp(">=", k, base), Cmp("<", k, Arith("+", base, n)))
			s1.assume(Forall([]*Term{k}, Eq(Select(Select(nh, SlArr(s)), k),
				Ite(inNew, Select(Select(h, SlArr(t)), Sidx(SlOff(t), Arith("-", k, base))), Select(Select(h, SlArr(s)), k))),
				[]*Term{Select(Select(nh, SlArr(s)), k)}))
			j := Var("fj", SInt)
			src := Select(Select(h, SlArr(t)), Sidx(SlOff(t), j))
			s1.assume(Forall([]*Term{j}, Implies(And(Cmp(">=", j, IntLit(0)), Cmp("<", j, n)),
				Eq(Select(Select(nh, SlArr(s)), Sidx(SlOff(s), Arith("+", SlLen(s), j))), src)), []*Term{src}))
			s1.heap[comp] = nh
		}
		f1.vals[call] = Val{T: MkSlice(SlArr(s), SlOff(s), newLen, SlCap(s))}
		f1.idx++
		out = append(out, s1)
		st = s2
	}
	// branch 2: reallocation
	if st != nil {
		f2 := st.top()
		st.assume(Not(fits))
		id := x.allocID(st)
		ncap := x.freshVar("newcap", SInt)
		st.assume(Cmp(">=", ncap, newLen))
		h := x.heapGet(st, comp, cs)
		es := x.TI.SortOf(el)
		nrow := x.freshVar("newrow", ArraySort(SInt, es))
		k := Var("fk", SInt)
		st.assume(Forall([]*Term{k}, Implies(And(Cmp(">=", k, IntLit(0)), Cmp("<", k, SlLen(s))),
			Eq(Select(nrow, k), Select(Select(h, SlArr(s)), Sidx(SlOff(s), k)))), []*Term{Select(nrow, k)}))
		if nl, ok := litInt(n); ok && nl.Int64() == 1 {
			st.assume(Eq(Select(nrow, SlLen(s)), Select(Select(h, SlArr(t)), Sidx(SlOff(t), IntLit(0)))))
		} else {
			st.assume(Forall([]*Term{k}, Implies(And(Cmp(">=", k, SlLen(s)), Cmp("<", k, newLen)),
				Eq(Select(nrow, k), Select(Select(h, SlArr(t)), Sidx(SlOff(t), Arith("-", k, SlLen(s)))))), []*Term{Select(nrow, k)}))
			j := Var("fj", SInt)
			src := Select(Select(h, SlArr(t)), Sidx(SlOff(t), j))
			st.assume(Forall([]*Term{j}, Implies(And(Cmp(">=", j, IntLit(0)), Cmp("<", j, n)),
				Eq(Select(nrow, Arith("+", SlLen(s), j)), src)), []*Term{src}))
		}
		{
			// the same copy fact, triggered by reads of the old contents
			j := Var("fj", SInt)
			src := Select(Select(h, SlArr(s)), Sidx(SlOff(s), j))
			st.assume(Forall([]*Term{j}, Implies(And(Cmp(">=", j, IntLit(0)), Cmp("<", j, SlLen(s))), Eq(Select(nrow, j), src)), []*Term{src}))
		}
		st.heap[comp] = Store(h, id, nrow)
		f2.vals[call] = Val{T: MkSlice(id, IntLit(0), newLen, ncap)}
		f2.idx++
		out = append(out, st)
	}
	if len(out) == 1 {
		// single successor: continue on the same path. The state object is out[0]; it is the caller's st only if no clone happened.
		return out, false
	}
	return out, false
}

// frameCheckCond: frame obligation that only applies under cond.
func (x *Exec) frameCheckCond(st *State, cond *Term, id *Term, what string) {
	vc := x.vc
	if !vc.checkFrame || st.freshID[id.String()] {
		return
	}
	alts := []*Term{Not(cond), Cmp(">=", id, vc.allocBase)}
	for _, a := range vc.assignIDs {
		alts = append(alts, Eq(id, a))
	}
	x.oblige(st, "frame", what, nil, Or(alts...), "write to memory that is neither fresh nor named in assigns")
}

func (x *Exec) stepCopy(st *State, fr *Frame, call *ssa.Call) ([]*State, bool) {
	cc := call.Common()
	d := x.val(st, fr, cc.Args[0]).T
	s := x.val(st, fr, cc.Args[1]).T
	el := types.Unalias(cc.Args[0].Type()).Underlying().(*types.Slice).Elem()
	comp, cs := x.elemComp(el)
	n := x.freshVar("ncopy", SInt)
	st.assume(Eq(n, Ite(Cmp("<=", SlLen(d), SlLen(s)), SlLen(d), SlLen(s))))
	x.frameCheckCond(st, Cmp(">", n, IntLit(0)), SlArr(d), "copy")
	h := x.heapGet(st, comp, cs)
	nh := x.freshVar(comp+"_cp", cs)
	a, k := Var("fa", SInt), Var("fk", SInt)
	st.assume(Forall([]*Term{a}, Implies(Not(Eq(a, SlArr(d))), Eq(Select(nh, a), Select(h, a))), []*Term{Select(nh, a)}))
	inDst := And(Cmp(">=", k, SlOff(d)), Cmp("<", k, Arith("+", SlOff(d), n)))
	st.assume(Forall([]*Term{k}, Eq(Select(Select(nh, SlArr(d)), k),
		Ite(inDst, Select(Select(h, SlArr(s)), Sidx(SlOff(s), Arith("-", k, SlOff(d)))), Select(Select(h, SlArr(d)), k))),
		[]*Term{Select(Select(nh, SlArr(d)), k)}))
	st.heap[comp] = nh
	fr.vals[call] = Val{T: n}
	fr.idx++
	return nil, true
}

// ---------------------------------------------------------------------------
// summaries of small pure functions (comparators): all paths of a loop-free function as (condition, result) pairs

type pureResult struct {
	pc   []*Term
	rets []Val
}

type pureCtx struct {
	depth   int
	basePC  int
	results []pureResult
}

// summarize runs fn on args in (a clone of) st and returns one (path condition, results) pair per returning path.
// Panicking paths are dropped (their conditions are simply absent).  The function must not write old memory.
func (x *Exec) summarize(st *State, fn *ssa.Function, bindings []Val, args []Val) []pureResult {
	if fn.Blocks == nil || x.info(fn).hasLoops {
		fail("cannot summarise %s (no body or loops)", fn.Name())
	}
	s2 := st.clone()
	nf := &Frame{id: x.nextFrameID(), fn: fn, vals: map[ssa.Value]Val{}, open: map[*Loop]bool{}, depth: len(s2.frames)}
	for i, p := range fn.Params {
		nf.vals[p] = args[i]
	}
	for i, p := range fn.FreeVars {
		if i < len(bindings) {
			nf.vals[p] = bindings[i]
		}
	}
	nf.block = fn.Blocks[0]
	s2.frames = append(s2.frames, nf)
	savedPure, savedObls, savedFrame, savedPaths, savedTrack := x.pure, len(x.vc.obls), x.vc.checkFrame, x.vc.paths, x.vc.trackPanics
	x.pure = &pureCtx{depth: len(s2.frames), basePC: len(s2.pc)}
	x.vc.checkFrame = false
	x.vc.trackPanics = false
	work := []*State{s2}
	for len(work) > 0 {
		w := work[len(work)-1]
		work = work[:len(work)-1]
		work = append(work, x.runPath(w)...)
	}
	res := x.pure.results
	x.pure = savedPure
	x.vc.obls = x.vc.obls[:savedObls]
	x.vc.checkFrame = savedFrame
	x.vc.paths = savedPaths
	x.vc.trackPanics = savedTrack
	return res
}

// boolSummary: the function's boolean result as one term.
func (x *Exec) boolSummary(st *State, fn *ssa.Function, bindings []Val, args []Val) *Term {
	var alts []*Term
	for _, r := range x.summarize(st, fn, bindings, args) {
		if len(r.rets) != 1 || r.rets[0].T == nil || r.rets[0].T.Sort != SBool {
			fail("comparator %s does not return a single bool", fn.Name())
		}
		alts = append(alts, And(append(append([]*Term{}, r.pc...), r.rets[0].T)...))
	}
	return Or(alts...)
}


// linkAbstractDefinitions: the argument v (of interface type it) is box_T(...) for a statically known T.  Every method of T
// whose contract says "refines I.M with abs=conc" gives, for one-parameter abstract spec functions abs, the fact
// abs(v) == conc(v) in the current state (the object is assumed not to change while the abstract value is in use).
func (x *Exec) linkAbstractDefinitions(st *State, v SV, it types.Type, arg Val) {
	if v.T == nil || v.T.Kind != kApp || !strings.HasPrefix(v.T.Op, "box_") {
		return
	}
	var bt types.Type
	for _, tt := range x.TI.tagTypes {
		if x.TI.boxName(tt) == v.T.Op {
			bt = tt
		}
	}
	if bt == nil {
		return
	}
	ms := x.prog.MethodSets.MethodSet(bt)
	for i := 0; i < ms.Len(); i++ {
		m := x.prog.MethodValue(ms.At(i))
		if m == nil || m.Pkg == nil {
			continue
		}
		fs := x.DB.Funcs[funcKey(m)]
		if fs == nil {
			continue
		}
		for _, rf := range fs.Refines {
			ip := rf.IfaceMethod
			if j := strings.Index(ip, "."); j >= 0 {
				ip = ip[:j]
			}
			for abs, conc := range rf.Subst {
				as := x.DB.LookupSpec("", ip+"."+abs)
				if as == nil || len(as.Params) < 1 || as.Body != nil {
					continue
				}
				key := "link:" + abs + ":" + v.T.String()
				if _, done := st.ghost[key]; done {
					continue
				}
				env := &Env{x: x, st: st, old: st, vars: map[string]SV{"linked__": {T: v.T, Typ: it}}, pkg: m.Pkg, allocOld: st.alloc}
				aargs := []Expr{&EIdent{Name: "linked__"}}
				var binders []Binder
				for i, p := range as.Params[1:] {
					bn := fmt.Sprintf("linked_arg%d__", i)
					t := p.T
					// the abstract function's parameter types are written relative to its own package
					if !strings.Contains(t.Text, ".") && t.Text != "int" && t.Text != "real" && t.Text != "bool" && t.Text != "string" && !strings.HasPrefix(t.Text, "[]") && !strings.HasPrefix(t.Text, "*") && !strings.HasPrefix(t.Text, "func") {
						t = TypeExpr{Text: ip + "." + t.Text}
					}
					binders = append(binders, Binder{Name: bn, T: t})
					aargs = append(aargs, &EIdent{Name: bn})
				}
				var e Expr = &EBinary{Op: "==", X: &ECall{Fn: ip + "." + abs, Args: aargs}, Y: &ECall{Fn: conc, Args: aargs}}
				if len(binders) > 0 {
					e = &EQuant{Forall: true, Vars: binders, Body: e}
				}
				func() {
					defer func() {
						if r := recover(); r != nil {
							x.note("abstract %s not linked to %s for %s: %v", abs, conc, bt, r)
						}
					}()
					t := x.evalBool(env, e)
					st.assume(And(env.takeSide()...))
					st.assume(t)
					st.ghost[key] = TTrue
					x.note("abstract %s taken as %s for an argument of static type %s", abs, conc, bt)
				}()
			}
		}
	}
}


// appendsTo: the parameter positions of fn that it (or a library function it hands them to) appends to.  Syntactic, over
// go/ssa: an append whose first operand is the parameter, a re-slice of it, or a local that was assigned from it.
func (x *Exec) appendsTo(fn *ssa.Function) map[int]bool {
	if x.appendSum == nil {
		x.appendSum = map[*ssa.Function]map[int]bool{}
		var fns []*ssa.Function
		for f := range ssautil.AllFunctions(x.prog) {
			if f.Blocks != nil && f.Pkg != nil && strings.Contains(f.Pkg.Pkg.Path(), "RealDecisionMaker/lib") {
				fns = append(fns, f)
			}
		}
		var root func(v ssa.Value, f *ssa.Function, depth int) int
		root = func(v ssa.Value, f *ssa.Function, depth int) int {
			if depth > 8 {
				return -1
			}
			switch v := v.(type) {
			case *ssa.Parameter:
				for i, p := range f.Params {
					if p == v {
						if _, ok := types.Unalias(p.Type()).Underlying().(*types.Slice); ok {
							return i
						}
					}
				}
			case *ssa.Slice:
				return root(v.X, f, depth+1)
			case *ssa.ChangeType:
				return root(v.X, f, depth+1)
			case *ssa.UnOp:
				if a, ok := v.X.(*ssa.Alloc); ok && v.Op.String() == "*" && a.Referrers() != nil {
					for _, r := range *a.Referrers() {
						if st, ok := r.(*ssa.Store); ok && st.Addr == a {
							if _, isCall := st.Val.(*ssa.Call); isCall {
								continue // the result of an append assigned back: still the same variable
							}
							if i := root(st.Val, f, depth+1); i >= 0 {
								return i
							}
						}
					}
				}
			}
			return -1
		}
		mark := func(f *ssa.Function, i int) bool {
			if i < 0 {
				return false
			}
			if x.appendSum[f] == nil {
				x.appendSum[f] = map[int]bool{}
			}
			if x.appendSum[f][i] {
				return false
			}
			x.appendSum[f][i] = true
			return true
		}
		for changed := true; changed; {
			changed = false
			for _, f := range fns {
				for _, b := range f.Blocks {
					for _, ins := range b.Instrs {
						c, ok := ins.(ssa.CallInstruction)
						if !ok {
							continue
						}
						cc := c.Common()
						if bi, ok := cc.Value.(*ssa.Builtin); ok && bi.Name() == "append" && len(cc.Args) > 0 {
							if mark(f, root(cc.Args[0], f, 0)) {
								changed = true
							}
							continue
						}
						if callee := cc.StaticCallee(); callee != nil {
							for j := range x.appendSum[callee] {
								if j < len(cc.Args) && mark(f, root(cc.Args[j], f, 0)) {
									changed = true
								}
							}
						}
					}
				}
			}
		}
	}
	return x.appendSum[fn]
}
