package main

import (
	"fmt"
	"os"
)

func main() {
	if len(os.Args) < 2 {
		fmt.Fprintln(os.Stderr, "usage: gocv <cmd>")
		os.Exit(2)
	}
	switch os.Args[1] {
	case "dump":
		cmdDump(os.Args[2:])
	case "verify":
		cmdVerify(os.Args[2:])
	case "check":
		cmdCheck(os.Args[2:])
	case "sweep":
		cmdSweep()
	case "calls":
		cmdCalls()
	case "wire":
		cmdWire()
	default:
		fmt.Fprintln(os.Stderr, "unknown command")
		os.Exit(2)
	}
}
