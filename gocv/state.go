package main

// Symbolic state: heap components, allocation counter, local cells, frames, path condition.

import (
	"fmt"
	"go/types"

	"golang.org/x/tools/go/ssa"
)

type cellKey struct {
	frame int
	alloc *ssa.Alloc
}

type locKind int

const (
	locCell   locKind = iota // non-escaping local
	locHeap                  // HP_<sort>[addr]
	locElem                  // HS_<sort>[arr][idx]
	locGlobal                // package-level variable
	locArr                   // pointer to a whole backing array (Alloc of array type)
)

type Loc struct {
	kind   locKind
	cell   cellKey
	addr   *Term // locHeap: address; locElem/locArr: array id
	idx    *Term // locElem: absolute index
	global *ssa.Global
	root   types.Type // type of the root object
	path   []int      // struct field indices applied to the root
	n      int64      // locArr: array length
}

func (l *Loc) withField(i int) *Loc {
	nl := *l
	nl.path = append(append([]int{}, l.path...), i)
	return &nl
}

type Closure struct {
	fn       *ssa.Function
	bindings []Val
}

type Val struct {
	T     *Term
	Loc   *Loc
	Tuple []Val
	Clo   *Closure
}

func (v Val) String() string {
	switch {
	case v.T != nil:
		return v.T.String()
	case v.Loc != nil:
		return fmt.Sprintf("loc(%d)", v.Loc.kind)
	case v.Clo != nil:
		return "closure " + v.Clo.fn.Name()
	case v.Tuple != nil:
		return fmt.Sprintf("tuple%d", len(v.Tuple))
	}
	return "<nil>"
}

type Frame struct {
	id      int
	fn      *ssa.Function
	vals    map[ssa.Value]Val
	open    map[*Loop]bool
	block   *ssa.BasicBlock
	idx     int
	pred    *ssa.BasicBlock
	callIns ssa.Instruction // in the caller: the call this frame serves (nil for top)
	depth   int
	order   map[ssa.Value]int // allocation order of locals (for name resolution)
	// loop entry snapshots for "old at loop entry" (unused for now)
}

func (f *Frame) clone() *Frame {
	nf := *f
	nf.vals = make(map[ssa.Value]Val, len(f.vals)+8)
	for k, v := range f.vals {
		nf.vals[k] = v
	}
	nf.order = make(map[ssa.Value]int, len(f.order))
	for k, v := range f.order {
		nf.order[k] = v
	}
	nf.open = make(map[*Loop]bool, len(f.open))
	for k, v := range f.open {
		nf.open[k] = v
	}
	return &nf
}

type matEntry struct {
	addr *Term
	loc  *Loc
	typ  types.Type
}

type State struct {
	heap    map[string]*Term
	alloc   *Term
	pc      []*Term
	cells   map[cellKey]*Term
	globals map[*ssa.Global]*Term
	ghost   map[string]*Term
	frames  []*Frame
	mats    []matEntry
	freshID map[string]bool // ids (by term text) allocated by the function under verification
	trace   []string
	panicked bool
	pcSet   map[string]bool
	heads   map[*Loop]*State // per open loop: the state at the head of the current iteration
}

func (s *State) clone() *State {
	n := &State{alloc: s.alloc, panicked: s.panicked}
	n.heap = make(map[string]*Term, len(s.heap))
	for k, v := range s.heap {
		n.heap[k] = v
	}
	n.pc = append([]*Term{}, s.pc...)
	n.cells = make(map[cellKey]*Term, len(s.cells))
	for k, v := range s.cells {
		n.cells[k] = v
	}
	n.globals = make(map[*ssa.Global]*Term, len(s.globals))
	for k, v := range s.globals {
		n.globals[k] = v
	}
	n.ghost = make(map[string]*Term, len(s.ghost))
	for k, v := range s.ghost {
		n.ghost[k] = v
	}
	n.frames = make([]*Frame, len(s.frames))
	for i, f := range s.frames {
		n.frames[i] = f.clone()
	}
	n.mats = append([]matEntry{}, s.mats...)
	n.freshID = make(map[string]bool, len(s.freshID))
	for k, v := range s.freshID {
		n.freshID[k] = v
	}
	n.trace = append([]string{}, s.trace...)
	if s.heads != nil {
		n.heads = make(map[*Loop]*State, len(s.heads))
		for k, v := range s.heads {
			n.heads[k] = v
		}
	}
	return n
}

// snapshot copies only what contract evaluation reads (heap, alloc, cells, globals, ghost).
func (s *State) snapshot() *State {
	n := &State{alloc: s.alloc}
	n.heap = make(map[string]*Term, len(s.heap))
	for k, v := range s.heap {
		n.heap[k] = v
	}
	n.cells = make(map[cellKey]*Term, len(s.cells))
	for k, v := range s.cells {
		n.cells[k] = v
	}
	n.globals = make(map[*ssa.Global]*Term, len(s.globals))
	for k, v := range s.globals {
		n.globals[k] = v
	}
	n.ghost = make(map[string]*Term, len(s.ghost))
	for k, v := range s.ghost {
		n.ghost[k] = v
	}
	n.freshID = s.freshID
	n.pc = nil
	return n
}

func (s *State) top() *Frame { return s.frames[len(s.frames)-1] }

func (s *State) assume(t *Term) {
	if t == nil || t.IsTrue() {
		return
	}
	if t.Kind == kApp && t.Op == "and" {
		for _, a := range t.Args {
			s.assume(a)
		}
		return
	}
	key := t.String()
	if s.pcSet == nil {
		s.pcSet = map[string]bool{}
		for _, p := range s.pc {
			s.pcSet[p.String()] = true
		}
	}
	if s.pcSet[key] {
		return
	}
	s.pcSet[key] = true
	s.pc = append(s.pc, t)
}
