package main

// Discharging obligations: one SMT-LIB file per obligation, solvers raced.

import (
	"bytes"
	"context"
	"fmt"
	"os"
	"os/exec"
	"path/filepath"
	"strings"
	"sync"
	"sync/atomic"
	"time"
)

type solverSpec struct {
	name string
	argv func(file string, timeoutS int) []string
}

var solvers = []solverSpec{
	{"z3-new-5.1.0", func(f string, t int) []string { return []string{"z3-new", fmt.Sprintf("-T:%d", t), f} }},
	{"z3-4.8.12", func(f string, t int) []string { return []string{"/usr/bin/z3", fmt.Sprintf("-T:%d", t), f} }},
	{"cvc5-1.0", func(f string, t int) []string {
		return []string{"cvc5", fmt.Sprintf("--tlimit=%d", t*1000), "--full-saturate-quant", f}
	}},
}

type solveResult struct {
	result string // unsat sat unknown timeout error
	solver string
	out    string
	secs   float64
}

// solverSlots bounds the number of solver processes running at once (one per core), so that the wall-clock
// time limits of the solvers mean what they say.
var scriptMu sync.Mutex

var solverSlots = make(chan struct{}, 16)

func runSolver(ctx context.Context, s solverSpec, file string, timeoutS int) solveResult {
	select {
	case solverSlots <- struct{}{}:
		defer func() { <-solverSlots }()
	case <-ctx.Done():
		return solveResult{result: "timeout", solver: s.name, out: "cancelled"}
	}
	if ctx.Err() != nil {
		return solveResult{result: "timeout", solver: s.name, out: "cancelled"}
	}
	start := time.Now()
	argv := s.argv(file, timeoutS)
	cctx, cancel := context.WithTimeout(ctx, time.Duration(timeoutS+2)*time.Second)
	defer cancel()
	cmd := exec.CommandContext(cctx, argv[0], argv[1:]...)
	var out bytes.Buffer
	cmd.Stdout = &out
	cmd.Stderr = &out
	cmd.Run()
	secs := time.Since(start).Seconds()
	text := out.String()
	first := strings.TrimSpace(strings.SplitN(text, "\n", 2)[0])
	res := "error"
	switch {
	case first == "unsat":
		res = "unsat"
	case first == "sat":
		res = "sat"
	case first == "unknown":
		res = "unknown"
	case first == "timeout" || strings.Contains(first, "interrupted") || cctx.Err() != nil:
		res = "timeout"
	case first == "":
		res = "timeout"
	}
	return solveResult{result: res, solver: s.name, out: text, secs: secs}
}

// discharge decides one obligation.
func discharge(u *Universe, o *Obligation, dir string, timeoutS int, confirm bool) {
	if o.Solver == "syntactic" || o.Result == "error" {
		return
	}
	scriptMu.Lock() // terms memoise their text: rendering is not safe for concurrent use
	script := u.Script(o.Assumptions, o.Goal, true)
	scriptMu.Unlock()
	fname := filepath.Join(dir, sanitizeFile(o.Name)+fmt.Sprintf("__p%d_%x.smt2", o.Path, fnv(script)))
	content := []byte("; obligation " + o.Name + "\n; source " + o.Src + "\n" + script)
	if fi, err := os.Stat(fname); err != nil || fi.Size() != int64(len(content)) {
		// (the name carries the hash of the script: an existing file of that size is this very query, possibly being read by a
		// solver for an identical obligation right now - it is not rewritten)
		tmp := fmt.Sprintf("%s.%p.tmp", fname, o)
		os.WriteFile(tmp, content, 0o644)
		os.Rename(tmp, fname) // atomic: a reader sees the old complete file or the new complete file
	}
	o.File = fname
	start := time.Now()
	definite := func(r solveResult) bool { return r.result == "unsat" || r.result == "sat" }
	// further encodings of the same obligation (each is a weakening, so only "unsat" is meaningful):
	//   .abs   nonlinear arithmetic abstracted to uninterpreted functions
	//   .usi   slice index function sidx kept uninterpreted (injective) instead of defined as off+i
	type variant struct{ file, tag string }
	var variants []variant
	hasNL := strings.Contains(script, "(* ") || strings.Contains(script, "(/ ")
	hasSidx := strings.Contains(script, "(sidx ")
	if !o.Cover {
		hasUserPats := strings.Contains(script, ":pattern ((") && strings.Contains(script, "((q_")
		add := func(abs, usi bool, tag string) {
			np := strings.Contains(tag, "np")
			if np && !hasUserPats {
				return
			}
			scriptMu.Lock()
			txt := u.ScriptVariant3(o.Assumptions, o.Goal, abs, usi, np)
			scriptMu.Unlock()
			if abs && !strings.Contains(txt, "u_mul_") && !strings.Contains(txt, "u_div_") {
				return
			}
			name := strings.TrimSuffix(fname, ".smt2") + "." + tag + ".smt2"
			os.WriteFile(name, []byte("; obligation "+o.Name+" (weakened encoding "+tag+": only unsat is meaningful)\n"+txt), 0o644)
			variants = append(variants, variant{name, tag})
		}
		if hasNL {
			add(true, false, "abs")
		}
		if hasSidx {
			add(false, true, "usi")
		}
		if hasNL && hasSidx {
			add(true, true, "abs-usi")
		}
		// the same encodings with the contract quantifiers' explicit triggers removed (solver-chosen triggers)
		add(false, false, "np")
		if hasSidx {
			add(false, true, "usi-np")
		}
		if hasNL {
			add(true, hasSidx, "abs-np")
		}
	}
	var r solveResult
	if o.Cover {
		// vacuity guard: only "unsat" (contradictory assumptions) matters; a short budget is enough
		r = runSolver(context.Background(), solvers[0], fname, 2)
	} else {
		ctx, cancel := context.WithCancel(context.Background())
		ch := make(chan solveResult, 16)
		n := 0
		for _, s := range solvers {
			n++
			go func(s solverSpec) { ch <- runSolver(ctx, s, fname, timeoutS) }(s)
		}
		for _, v := range variants {
			for si, s := range solvers {
				if si == 1 && strings.HasPrefix(v.tag, "abs") {
					continue // the old z3 is weak on the abstracted nonlinear encodings; it runs the others
				}
				n++
				go func(s solverSpec, v variant) {
					r := runSolver(ctx, s, v.file, timeoutS)
					r.solver += "(" + v.tag + ")"
					if r.result == "sat" {
						r.result = "unknown" // a model of a weakening is not a counterexample
					}
					ch <- r
				}(s, v)
			}
		}
		var last solveResult
		got := false
		confirmedInRace := false
		base := func(name string) string {
			if i := strings.Index(name, "("); i >= 0 {
				return name[:i]
			}
			return name
		}
		for i := 0; i < n; i++ {
			rr := <-ch
			if definite(rr) {
				if !got {
					r = rr
					got = true
					if !confirm || rr.result == "sat" {
						break
					}
					continue
				}
				// thorough tier: a second, different solver that also answers unsat (on the exact encoding or on a
				// weakening of it) confirms the first one; the race goes on until that happens or everybody has answered
				if rr.result == "unsat" && base(rr.solver) != base(r.solver) {
					r.solver += "+" + rr.solver
					confirmedInRace = true
					break
				}
				if rr.result == "sat" && r.result == "unsat" {
					r.result = "error"
					r.out = "solvers disagree: " + r.solver + " unsat, " + rr.solver + " sat"
					confirmedInRace = true
					break
				}
				continue
			}
			if last.result == "" || last.result == "error" || (rr.result == "unknown" && last.result == "timeout") {
				last = rr
			}
		}
		cancel()
		if !got {
			r = last
		}
		if confirmedInRace {
			confirm = false
		}
	}
	if confirm && r.result == "unsat" {
		// a second, different solver must agree
		for _, s := range solvers {
			if s.name == r.solver {
				continue
			}
			r2 := runSolver(context.Background(), s, fname, timeoutS)
			if r2.result == "unsat" {
				r.solver += "+" + s.name
				break
			}
			if r2.result == "sat" {
				r.result = "error"
				r.out = "solvers disagree: " + r.solver + " unsat, " + s.name + " sat"
				break
			}
		}
	}
	o.Result = r.result
	o.Solver = r.solver
	o.TimeS = time.Since(start).Seconds()
	if r.result != "unsat" {
		o.Model = truncate(r.out, 6000)
	}
}

func sanitizeFile(s string) string {
	s = strings.NewReplacer("/", "_", "(", "", ")", "", "*", "P", "#", "--", " ", "_", "$", "_").Replace(s)
	return s
}

// failfastIgnore: obligations whose failure does not stop a fail-fast run (the recorded known findings)
var failfastIgnore = map[string]bool{}

func dischargeAll(u *Universe, obls []*Obligation, dir string, timeoutS int, confirm bool, workers int) {
	os.MkdirAll(dir, 0o755)
	var wg sync.WaitGroup
	ch := make(chan *Obligation)
	// GOCV_FAILFAST (seeded-change runs only, never the registered checks): once an obligation has failed the remaining ones
	// are not run; they are reported as "skipped", which the summary counts as not discharged
	failfast := os.Getenv("GOCV_FAILFAST") != ""
	var failed int32
	for i := 0; i < workers; i++ {
		wg.Add(1)
		go func() {
			defer wg.Done()
			for o := range ch {
				if failfast && atomic.LoadInt32(&failed) != 0 && o.Result == "" {
					o.Result, o.Solver = "skipped", "none"
					continue
				}
				discharge(u, o, dir, timeoutS, confirm)
				if failfast && o.Result != "unsat" && !o.Cover && !failfastIgnore[o.Name] {
					atomic.StoreInt32(&failed, 1)
				}
			}
		}()
	}
	for _, o := range obls {
		ch <- o
	}
	close(ch)
	wg.Wait()
	// the queries of obligations that came out as expected are not kept (a full quick tier wrote 14 GB otherwise); those of
	// failed obligations stay for the replay files.  Done only now: identical obligations share one file, so nothing may be
	// removed while another instance could still be running.  "gocv verify" (directory "dev") and GOCV_KEEP_SMT keep everything.
	if filepath.Base(dir) == "dev" || os.Getenv("GOCV_KEEP_SMT") != "" {
		return
	}
	asExpected := func(o *Obligation) bool { return (!o.Cover && o.Result == "unsat") || (o.Cover && o.Result == "sat") }
	keep := map[string]bool{}
	for _, o := range obls {
		if o.File != "" && !asExpected(o) {
			keep[o.File] = true
		}
	}
	remove := map[string]bool{} // query files (without ".smt2") whose obligation came out as expected
	for _, o := range obls {
		if o.File != "" && !keep[o.File] && asExpected(o) {
			remove[strings.TrimSuffix(o.File, ".smt2")] = true
		}
	}
	entries, err := os.ReadDir(dir)
	if err != nil {
		return
	}
	for _, e := range entries {
		name := filepath.Join(dir, e.Name())
		if !strings.HasSuffix(name, ".smt2") {
			continue
		}
		base := strings.TrimSuffix(name, ".smt2")
		if remove[base] {
			os.Remove(name)
		} else if i := strings.LastIndex(base, "."); i > 0 && remove[base[:i]] {
			os.Remove(name) // a weakened encoding <query>.<tag>.smt2
		}
	}
}
