package main

// Contract language: lexer, parser, AST, and the per-package contract database.
//
// Contracts live in comment-only files (zz_contracts_verif.go) as lines starting with "//@".

import (
	"fmt"
	"os"
	"path/filepath"
	"regexp"
	"sort"
	"strconv"
	"strings"
)

// ---------------------------------------------------------------------------
// AST

type Expr interface{ exprString() string }

type (
	ENum   struct{ Text string }
	EStr   struct{ Val string }
	EBool  struct{ Val bool }
	EIdent struct{ Name string }
	EUnary struct {
		Op string
		X  Expr
	}
	EBinary struct {
		Op   string
		X, Y Expr
	}
	ECond struct{ C, A, B Expr }
	EField struct {
		X    Expr
		Name string
	}
	EIndex struct{ X, I Expr }
	ESlice struct{ X, Lo, Hi Expr }
	ECall  struct {
		Fn   string
		Args []Expr
	}
	EAssert struct { // x.(T)
		X Expr
		T TypeExpr
	}
	EOld   struct{ X Expr }
	EQuant struct {
		Forall bool
		Vars   []Binder
		Body   Expr
	}
	ELet struct {
		Name string
		Val  Expr
		Body Expr
	}
)

type Binder struct {
	Name string
	T    TypeExpr
}

// TypeExpr: int, real, bool, string, Name, pkg.Name, *T, []T
type TypeExpr struct{ Text string }

func (e *ENum) exprString() string   { return e.Text }
func (e *EStr) exprString() string   { return strconv.Quote(e.Val) }
func (e *EBool) exprString() string  { return fmt.Sprint(e.Val) }
func (e *EIdent) exprString() string { return e.Name }
func (e *EUnary) exprString() string { return e.Op + e.X.exprString() }
func (e *EBinary) exprString() string {
	return "(" + e.X.exprString() + " " + e.Op + " " + e.Y.exprString() + ")"
}
func (e *ECond) exprString() string {
	return "(" + e.C.exprString() + " ? " + e.A.exprString() + " : " + e.B.exprString() + ")"
}
func (e *EField) exprString() string { return e.X.exprString() + "." + e.Name }
func (e *EIndex) exprString() string { return e.X.exprString() + "[" + e.I.exprString() + "]" }
func (e *ESlice) exprString() string { return e.X.exprString() + "[:]" }
func (e *ECall) exprString() string {
	var as []string
	for _, a := range e.Args {
		as = append(as, a.exprString())
	}
	return e.Fn + "(" + strings.Join(as, ", ") + ")"
}
func (e *EAssert) exprString() string { return e.X.exprString() + ".(" + e.T.Text + ")" }
func (e *EOld) exprString() string    { return "old(" + e.X.exprString() + ")" }
func (e *EQuant) exprString() string {
	q := "exists"
	if e.Forall {
		q = "forall"
	}
	var vs []string
	for _, v := range e.Vars {
		vs = append(vs, v.Name+" "+v.T.Text)
	}
	return "(" + q + " " + strings.Join(vs, ", ") + " :: " + e.Body.exprString() + ")"
}
func (e *ELet) exprString() string {
	return "(let " + e.Name + " = " + e.Val.exprString() + " in " + e.Body.exprString() + ")"
}

// ---------------------------------------------------------------------------
// Contract items

type Clause struct {
	Assumed bool  // "assumes": a postcondition used at call sites but not proved against the body (listed as an assumption)
	Kind   string // requires ensures panics_if panics_iff invariant assert
	Reveal []string // opaque spec functions whose definition is made available (quantified) for this clause
	Label  string
	Props []string
	E     Expr
	Src   string // file:line
	Text  string
}

type LoopSpec struct {
	Hints      []*Clause // facts proved at the end of the body (back edge) and then assumed for the invariant proofs
	Invariants []*Clause
	Decreases  Expr
}

type FnParamSpec struct {
	Name    string
	Ensures []*Clause // over "result" and params p0, p1 ...
	Pure    bool      // result is a function of the arguments (and the function value)
}

type FuncSpec struct {
	Pkg       string // package path
	Name      string // e.g. WeightedSum, (*T).M, (T).M, F$1
	Requires  []*Clause
	Ensures   []*Clause
	PanicsIf  []*Clause
	PanicsIff []*Clause
	NoPanic   bool
	Assigns   []Expr
	AssignsSet bool
	Loops     map[int]*LoopSpec
	Trusted   bool // "assume": contract is not verified against the body
	Inline    bool
	IndexSafe bool // "indexsafe": no index / slice / make / integer-division / nil-map runtime error on any path
	FnParams  map[string]*FnParamSpec
	Props     []string // properties this function's obligations belong to by default
	Src       string
	MaxPaths  int
	Refines   []Refinement
	ReturnHints []*Clause // facts (may mention locals) proved at each return and then assumed for the postconditions
	CallHints []*CallHint // facts (may mention locals) proved wherever the function's own body calls the named function / method
	refExpanded bool
}

// CallHint: "callhint Name [label] cond" - at every call of a function or method called Name in the body, cond holds.
type CallHint struct {
	Name string
	C    *Clause
}

// Refinement: this function implements an interface method; its obligations are the interface method contract with the
// abstract predicates replaced by this implementation's definitions (behavioural subtyping).
type Refinement struct {
	IfaceMethod string            // pkgshort.Iface.Method
	Subst       map[string]string // abstract spec function -> concrete spec function
	Src         string
}

type SpecFunc struct {
	Pkg    string
	Name   string
	Params []Binder
	Ret    TypeExpr
	Body   Expr // nil: uninterpreted
	Src    string
	Opaque bool
}

type Lemma struct {
	Pkg      string
	Name     string
	Props    []string
	Vars     []Binder
	Requires []Expr
	Ensures  []Expr
	Src      string
	Unfold   int
}

type IfaceMethodSpec struct {
	Iface  string
	Method string
	Spec   *FuncSpec
}

// WireSpec: the JSON view of a struct type ("wire T" / "json Field=name ..."): the listed fields are serialised under exactly
// these tags (checked against the struct tags; encoding/json itself is outside the verified code).
type WireSpec struct {
	Pkg    string
	Type   string
	Props  []string
	Fields [][2]string // Go field name, expected json tag value
	Types  [][2]string // Go field name, expected Go type of the field (as printed relative to its package)
	Src    string
}

type SpecDB struct {
	Wires   []*WireSpec
	Funcs   map[string]*FuncSpec // key: pkgpath + "." + Name
	Specs   map[string]*SpecFunc // key: pkgpath + "." + name ; also looked up by bare name across packages
	Lemmas  []*Lemma
	IMeths  map[string]*FuncSpec // key: pkgpath.Iface.Method
	Files   []string
	byName  map[string][]*SpecFunc
}

func NewSpecDB() *SpecDB {
	return &SpecDB{Funcs: map[string]*FuncSpec{}, Specs: map[string]*SpecFunc{}, IMeths: map[string]*FuncSpec{}, byName: map[string][]*SpecFunc{}}
}

func (db *SpecDB) LookupSpec(pkg, name string) *SpecFunc {
	if i := strings.Index(name, "."); i >= 0 {
		// qualified by short package name
		q, n := name[:i], name[i+1:]
		for _, s := range db.byName[n] {
			if shortPkgName(s.Pkg) == q || strings.ReplaceAll(shortPkgName(s.Pkg), "-", "_") == q {
				return s
			}
		}
		return nil
	}
	if s, ok := db.Specs[pkg+"."+name]; ok {
		return s
	}
	if l := db.byName[name]; len(l) == 1 {
		return l[0]
	}
	return nil
}

func shortPkgName(path string) string {
	if i := strings.LastIndex(path, "/"); i >= 0 {
		return path[i+1:]
	}
	return path
}

// ---------------------------------------------------------------------------
// Lexer

type stoken struct {
	kind string // num str ident op eof
	text string
}

func lexSpec(s string) ([]stoken, error) {
	var out []stoken
	i := 0
	for i < len(s) {
		c := s[i]
		switch {
		case c == ' ' || c == '\t' || c == '\n' || c == '\r':
			i++
		case c >= '0' && c <= '9':
			j := i
			for j < len(s) && (s[j] >= '0' && s[j] <= '9' || s[j] == '.' || s[j] == 'e' || s[j] == 'E' || ((s[j] == '-' || s[j] == '+') && (s[j-1] == 'e' || s[j-1] == 'E'))) {
				// do not swallow ".." or method calls on numbers
				if s[j] == '.' && (j+1 >= len(s) || s[j+1] < '0' || s[j+1] > '9') {
					break
				}
				j++
			}
			out = append(out, stoken{"num", s[i:j]})
			i = j
		case c == '"':
			j := i + 1
			for j < len(s) && s[j] != '"' {
				if s[j] == '\\' {
					j++
				}
				j++
			}
			if j >= len(s) {
				return nil, fmt.Errorf("unterminated string")
			}
			v, err := strconv.Unquote(s[i : j+1])
			if err != nil {
				return nil, err
			}
			out = append(out, stoken{"str", v})
			i = j + 1
		case c == '_' || c == '$' || c >= 'a' && c <= 'z' || c >= 'A' && c <= 'Z':
			j := i
			for j < len(s) && (s[j] == '_' || s[j] == '$' || s[j] >= 'a' && s[j] <= 'z' || s[j] >= 'A' && s[j] <= 'Z' || s[j] >= '0' && s[j] <= '9') {
				j++
			}
			out = append(out, stoken{"ident", s[i:j]})
			i = j
		default:
			ops := []string{"<==>", "==>", "::", "==", "!=", "<=", ">=", "&&", "||", "[]"}
			matched := false
			for _, op := range ops {
				if strings.HasPrefix(s[i:], op) {
					out = append(out, stoken{"op", op})
					i += len(op)
					matched = true
					break
				}
			}
			if !matched {
				if strings.ContainsRune("+-*/%<>!()[]{}.,:?=&|", rune(c)) {
					out = append(out, stoken{"op", string(c)})
					i++
				} else {
					return nil, fmt.Errorf("unexpected character %q", c)
				}
			}
		}
	}
	out = append(out, stoken{"eof", ""})
	return out, nil
}

// ---------------------------------------------------------------------------
// Parser

type parser struct {
	toks []stoken
	pos  int
	noIn int
}

func (p *parser) peek() stoken { return p.toks[p.pos] }
func (p *parser) next() stoken { t := p.toks[p.pos]; p.pos++; return t }
func (p *parser) isOp(s string) bool {
	t := p.peek()
	return t.kind == "op" && t.text == s
}
func (p *parser) isIdent(s string) bool {
	t := p.peek()
	return t.kind == "ident" && t.text == s
}
func (p *parser) expectOp(s string) {
	if !p.isOp(s) {
		panic(fmt.Errorf("expected %q, found %q", s, p.peek().text))
	}
	p.pos++
}
func (p *parser) expectIdent() string {
	t := p.next()
	if t.kind != "ident" {
		panic(fmt.Errorf("expected identifier, found %q", t.text))
	}
	return t.text
}

func parseExprString(s string) (e Expr, err error) {
	defer func() {
		if r := recover(); r != nil {
			if er, ok := r.(error); ok {
				err = fmt.Errorf("%v in %q", er, s)
				return
			}
			panic(r)
		}
	}()
	toks, lerr := lexSpec(s)
	if lerr != nil {
		return nil, lerr
	}
	p := &parser{toks: toks}
	e = p.parseExpr()
	if p.peek().kind != "eof" {
		panic(fmt.Errorf("trailing input at %q", p.peek().text))
	}
	return e, nil
}

func (p *parser) parseExpr() Expr {
	if p.isIdent("forall") || p.isIdent("exists") {
		q := p.next().text
		vars := p.parseBinders()
		p.expectOp("::")
		body := p.parseExpr()
		return &EQuant{Forall: q == "forall", Vars: vars, Body: body}
	}
	if p.isIdent("let") {
		p.next()
		name := p.expectIdent()
		p.expectOp("=")
		p.noIn++
		val := p.parseExpr()
		p.noIn--
		if !p.isIdent("in") {
			panic(fmt.Errorf("expected 'in' after let binding"))
		}
		p.next()
		body := p.parseExpr()
		return &ELet{Name: name, Val: val, Body: body}
	}
	c := p.parseImpl()
	if p.isOp("?") {
		p.next()
		a := p.parseExpr()
		p.expectOp(":")
		b := p.parseExpr()
		return &ECond{C: c, A: a, B: b}
	}
	return c
}

func (p *parser) parseBinders() []Binder {
	var out []Binder
	for {
		var names []string
		names = append(names, p.expectIdent())
		// "i, j int" groups
		for p.isOp(",") {
			// lookahead: ident followed by type or another comma
			p.next()
			names = append(names, p.expectIdent())
			if !p.isOp(",") {
				break
			}
		}
		t := p.parseType()
		for _, n := range names {
			out = append(out, Binder{Name: n, T: t})
		}
		if p.isOp(",") {
			p.next()
			continue
		}
		return out
	}
}

func (p *parser) parseType() TypeExpr {
	var b strings.Builder
	for {
		if p.isOp("*") {
			p.next()
			b.WriteString("*")
			continue
		}
		if p.isOp("[]") {
			p.next()
			b.WriteString("[]")
			continue
		}
		if p.isOp("[") { // "[" "]"
			p.next()
			p.expectOp("]")
			b.WriteString("[]")
			continue
		}
		break
	}
	if p.isIdent("func") {
		// func(T1, T2) R : a function value (only usable with apply)
		p.next()
		p.expectOp("(")
		var ps []string
		for !p.isOp(")") {
			ps = append(ps, p.parseType().Text)
			if p.isOp(",") {
				p.next()
			}
		}
		p.expectOp(")")
		r := p.parseType()
		b.WriteString("func(" + strings.Join(ps, ",") + ")" + r.Text)
		return TypeExpr{b.String()}
	}
	if p.isIdent("map") {
		p.next()
		p.expectOp("[")
		k := p.parseType()
		p.expectOp("]")
		v := p.parseType()
		b.WriteString("map[" + k.Text + "]" + v.Text)
		return TypeExpr{b.String()}
	}
	name := p.expectIdent()
	b.WriteString(name)
	if p.isOp(".") {
		p.next()
		b.WriteString("." + p.expectIdent())
	}
	return TypeExpr{b.String()}
}

func (p *parser) parseImpl() Expr {
	x := p.parseOr()
	if p.isOp("==>") {
		p.next()
		var y Expr
		if p.isIdent("forall") || p.isIdent("exists") || p.isIdent("let") {
			y = p.parseExpr()
		} else {
			y = p.parseImpl()
		}
		return &EBinary{Op: "==>", X: x, Y: y}
	}
	if p.isOp("<==>") {
		p.next()
		var y Expr
		if p.isIdent("forall") || p.isIdent("exists") || p.isIdent("let") {
			y = p.parseExpr()
		} else {
			y = p.parseOr()
		}
		return &EBinary{Op: "<==>", X: x, Y: y}
	}
	return x
}

func (p *parser) parseOr() Expr {
	x := p.parseAnd()
	for p.isOp("||") {
		p.next()
		var y Expr
		if p.isIdent("forall") || p.isIdent("exists") {
			y = p.parseExpr()
		} else {
			y = p.parseAnd()
		}
		x = &EBinary{Op: "||", X: x, Y: y}
	}
	return x
}

func (p *parser) parseAnd() Expr {
	x := p.parseCmp()
	for p.isOp("&&") {
		p.next()
		var y Expr
		if p.isIdent("forall") || p.isIdent("exists") {
			y = p.parseExpr()
		} else {
			y = p.parseCmp()
		}
		x = &EBinary{Op: "&&", X: x, Y: y}
	}
	return x
}

func (p *parser) parseCmp() Expr {
	x := p.parseAdd()
	t := p.peek()
	if t.kind == "op" {
		switch t.text {
		case "==", "!=", "<", "<=", ">", ">=":
			p.next()
			y := p.parseAdd()
			r := Expr(&EBinary{Op: t.text, X: x, Y: y})
			// chained comparison a <= b < c
			for {
				t2 := p.peek()
				if t2.kind == "op" && (t2.text == "<" || t2.text == "<=" || t2.text == ">" || t2.text == ">=") {
					p.next()
					z := p.parseAdd()
					r = &EBinary{Op: "&&", X: r, Y: &EBinary{Op: t2.text, X: y, Y: z}}
					y = z
					continue
				}
				break
			}
			return r
		}
	}
	if t.kind == "ident" && t.text == "in" && p.noIn == 0 {
		p.next()
		y := p.parseAdd()
		return &EBinary{Op: "in", X: x, Y: y}
	}
	return x
}

func (p *parser) parseAdd() Expr {
	x := p.parseMul()
	for p.isOp("+") || p.isOp("-") {
		op := p.next().text
		y := p.parseMul()
		x = &EBinary{Op: op, X: x, Y: y}
	}
	return x
}

func (p *parser) parseMul() Expr {
	x := p.parseUnary()
	for p.isOp("*") || p.isOp("/") || p.isOp("%") {
		op := p.next().text
		y := p.parseUnary()
		x = &EBinary{Op: op, X: x, Y: y}
	}
	return x
}

func (p *parser) parseUnary() Expr {
	if p.isOp("!") || p.isOp("-") || p.isOp("*") {
		op := p.next().text
		x := p.parseUnary()
		return &EUnary{Op: op, X: x}
	}
	return p.parsePostfix()
}

func (p *parser) parsePostfix() Expr {
	x := p.parsePrimary()
	for {
		switch {
		case p.isOp("."):
			p.next()
			if p.isOp("(") {
				p.next()
				t := p.parseType()
				p.expectOp(")")
				x = &EAssert{X: x, T: t}
				continue
			}
			name := p.expectIdent()
			if id, ok := x.(*EIdent); ok && p.isOp("(") {
				// qualified call pkg.f(...)
				p.next()
				args := p.parseArgs()
				x = &ECall{Fn: id.Name + "." + name, Args: args}
				continue
			}
			x = &EField{X: x, Name: name}
		case p.isOp("["):
			p.next()
			if p.isOp(":") {
				p.next()
				var hi Expr
				if !p.isOp("]") {
					hi = p.parseExpr()
				}
				p.expectOp("]")
				x = &ESlice{X: x, Hi: hi}
				continue
			}
			i := p.parseExpr()
			if p.isOp(":") {
				p.next()
				var hi Expr
				if !p.isOp("]") {
					hi = p.parseExpr()
				}
				p.expectOp("]")
				x = &ESlice{X: x, Lo: i, Hi: hi}
				continue
			}
			p.expectOp("]")
			x = &EIndex{X: x, I: i}
		default:
			return x
		}
	}
}

func (p *parser) parseArgs() []Expr {
	var args []Expr
	if p.isOp(")") {
		p.next()
		return args
	}
	for {
		args = append(args, p.parseExpr())
		if p.isOp(",") {
			p.next()
			continue
		}
		p.expectOp(")")
		return args
	}
}

func (p *parser) parsePrimary() Expr {
	t := p.next()
	switch t.kind {
	case "num":
		return &ENum{Text: t.text}
	case "str":
		return &EStr{Val: t.text}
	case "ident":
		switch t.text {
		case "true":
			return &EBool{true}
		case "false":
			return &EBool{false}
		case "old":
			if !p.isOp("(") {
				return &EIdent{Name: t.text} // a variable that happens to be called old
			}
			p.expectOp("(")
			x := p.parseExpr()
			p.expectOp(")")
			return &EOld{X: x}
		}
		if p.isOp("(") {
			p.next()
			args := p.parseArgs()
			return &ECall{Fn: t.text, Args: args}
		}
		return &EIdent{Name: t.text}
	case "op":
		if t.text == "(" {
			saved := p.noIn
			p.noIn = 0
			x := p.parseExpr()
			p.noIn = saved
			p.expectOp(")")
			return x
		}
	}
	panic(fmt.Errorf("unexpected token %q", t.text))
}

// ---------------------------------------------------------------------------
// Contract files

var reSpecLine = regexp.MustCompile(`^\s*//\s?@ ?(.*)$`)
var rePkgLine = regexp.MustCompile(`^package\s+(\w+)`)

type rawItem struct {
	head  string // first line text (after //@)
	lines []rawLine
	src   string
}
type rawLine struct {
	text string
	src  string
}

var topKeywords = map[string]bool{"func": true, "spec": true, "pred": true, "lemma": true, "ifacemethod": true, "wire": true}
var clauseKeywords = map[string]bool{"assumes": true, "returnhint": true, "callhint": true, "indexsafe": true, "refines": true, "requires": true, "ensures": true, "panics_if": true, "panics_iff": true, "nopanic": true,
	"assigns": true, "loop": true, "trusted": true, "inline": true, "fnparam": true, "property": true, "maxpaths": true,
	"opaque": true, "unfold": true, "json": true, "gotypes": true}

func firstWord(s string) string {
	s = strings.TrimSpace(s)
	for i, c := range s {
		if !(c == '_' || c >= 'a' && c <= 'z' || c >= 'A' && c <= 'Z') {
			return s[:i]
		}
	}
	return s
}

// LoadSpecFile parses one contract file. pkgPath is the import path of the package it belongs to.
func (db *SpecDB) LoadSpecFile(path, pkgPath string) error {
	data, err := os.ReadFile(path)
	if err != nil {
		return err
	}
	db.Files = append(db.Files, path)
	var items []*rawItem
	var cur *rawItem
	for n, line := range strings.Split(string(data), "\n") {
		m := reSpecLine.FindStringSubmatch(line)
		if m == nil {
			continue
		}
		text := strings.TrimRight(m[1], " \t")
		if strings.TrimSpace(text) == "" || strings.HasPrefix(strings.TrimSpace(text), "--") {
			continue
		}
		src := fmt.Sprintf("%s:%d", path, n+1)
		w := firstWord(text)
		if topKeywords[w] {
			cur = &rawItem{head: strings.TrimSpace(text), src: src}
			items = append(items, cur)
			continue
		}
		if cur == nil {
			return fmt.Errorf("%s: clause outside of an item", src)
		}
		if clauseKeywords[w] {
			cur.lines = append(cur.lines, rawLine{strings.TrimSpace(text), src})
		} else {
			// continuation of previous clause (or of the head for spec/pred)
			if len(cur.lines) == 0 {
				cur.head += " " + strings.TrimSpace(text)
			} else {
				cur.lines[len(cur.lines)-1].text += " " + strings.TrimSpace(text)
			}
		}
	}
	for _, it := range items {
		if err := db.addItem(it, pkgPath); err != nil {
			return fmt.Errorf("%s: %v", it.src, err)
		}
	}
	return nil
}

var reTags = regexp.MustCompile(`^\[([^\]]*)\]\s*`)
var reProp = regexp.MustCompile(`^C[0-9]{2,3}$`)

func parseTags(s string) (props []string, label string, rest string) {
	props, label, _, rest = parseTagsR(s)
	return
}

func parseTagsR(s string) (props []string, label string, reveal []string, rest string) {
	rest = s
	if m := reTags.FindStringSubmatch(s); m != nil {
		for _, w := range strings.Fields(m[1]) {
			if reProp.MatchString(w) {
				props = append(props, w)
			} else if strings.HasPrefix(w, "reveal:") {
				reveal = append(reveal, strings.TrimPrefix(w, "reveal:"))
			} else {
				label = w
			}
		}
		rest = s[len(m[0]):]
	}
	return
}

func (db *SpecDB) addItem(it *rawItem, pkgPath string) (err error) {
	defer func() {
		if r := recover(); r != nil {
			if er, ok := r.(error); ok {
				err = er
				return
			}
			panic(r)
		}
	}()
	w := firstWord(it.head)
	rest := strings.TrimSpace(it.head[len(w):])
	switch w {
	case "wire":
		ws := &WireSpec{Pkg: pkgPath, Type: strings.TrimSpace(rest), Src: it.src}
		for _, l := range it.lines {
			t := strings.TrimSpace(l.text)
			switch firstWord(t) {
			case "property":
				ws.Props = append(ws.Props, strings.Fields(t)[1:]...)
			case "json":
				for _, kv := range strings.Fields(t)[1:] {
					i := strings.Index(kv, "=")
					if i <= 0 {
						return fmt.Errorf("%s: json Field=tag expected, got %q", l.src, kv)
					}
					ws.Fields = append(ws.Fields, [2]string{kv[:i], kv[i+1:]})
				}
			case "gotypes":
				for _, kv := range strings.Fields(t)[1:] {
					i := strings.Index(kv, "=")
					if i <= 0 {
						return fmt.Errorf("%s: gotypes Field=type expected, got %q", l.src, kv)
					}
					ws.Types = append(ws.Types, [2]string{kv[:i], kv[i+1:]})
				}
			default:
				return fmt.Errorf("%s: wire: unknown clause %q", l.src, t)
			}
		}
		db.Wires = append(db.Wires, ws)
		return nil
	case "func", "ifacemethod":
		fs := &FuncSpec{Pkg: pkgPath, Name: strings.TrimSpace(rest), Loops: map[int]*LoopSpec{}, FnParams: map[string]*FnParamSpec{}, Src: it.src}
		for _, l := range it.lines {
			if e := parseClauseInto(fs, l); e != nil {
				return fmt.Errorf("%s: %v", l.src, e)
			}
		}
		if w == "ifacemethod" {
			db.IMeths[pkgPath+"."+fs.Name] = fs
			fs.Trusted = true
			return nil
		}
		key := pkgPath + "." + fs.Name
		if _, dup := db.Funcs[key]; dup {
			return fmt.Errorf("duplicate contract for %s", key)
		}
		db.Funcs[key] = fs
	case "spec", "pred":
		// spec name(a T, b U) R = body     |  spec name(a T) R      (uninterpreted)
		toks, lerr := lexSpec(rest)
		if lerr != nil {
			return lerr
		}
		p := &parser{toks: toks}
		sf := &SpecFunc{Pkg: pkgPath, Src: it.src}
		sf.Name = p.expectIdent()
		p.expectOp("(")
		if !p.isOp(")") {
			sf.Params = p.parseBinders()
		}
		p.expectOp(")")
		if w == "pred" {
			sf.Ret = TypeExpr{"bool"}
		} else {
			sf.Ret = p.parseType()
		}
		if p.isOp("=") {
			p.next()
			sf.Body = p.parseExpr()
		}
		if p.peek().kind != "eof" {
			return fmt.Errorf("trailing input in spec %s at %q", sf.Name, p.peek().text)
		}
		for _, l := range it.lines {
			if firstWord(l.text) == "opaque" {
				sf.Opaque = true
			}
		}
		key := pkgPath + "." + sf.Name
		if _, dup := db.Specs[key]; dup {
			return fmt.Errorf("duplicate spec function %s", key)
		}
		db.Specs[key] = sf
		db.byName[sf.Name] = append(db.byName[sf.Name], sf)
	case "lemma":
		// lemma [C14] name: forall x real, y real
		props, _, r2 := parseTags(rest)
		lm := &Lemma{Pkg: pkgPath, Props: props, Src: it.src, Unfold: 1}
		i := strings.Index(r2, ":")
		if i < 0 {
			lm.Name = strings.TrimSpace(r2)
		} else {
			lm.Name = strings.TrimSpace(r2[:i])
			bs := strings.TrimSpace(r2[i+1:])
			bs = strings.TrimPrefix(bs, "forall")
			if strings.TrimSpace(bs) != "" {
				toks, lerr := lexSpec(bs)
				if lerr != nil {
					return lerr
				}
				p := &parser{toks: toks}
				lm.Vars = p.parseBinders()
			}
		}
		for _, l := range it.lines {
			kw := firstWord(l.text)
			body := strings.TrimSpace(l.text[len(kw):])
			switch kw {
			case "requires", "ensures":
				e, perr := parseExprString(body)
				if perr != nil {
					return fmt.Errorf("%s: %v", l.src, perr)
				}
				if kw == "requires" {
					lm.Requires = append(lm.Requires, e)
				} else {
					lm.Ensures = append(lm.Ensures, e)
				}
			case "unfold":
				n, _ := strconv.Atoi(body)
				lm.Unfold = n
			default:
				return fmt.Errorf("%s: unexpected clause %q in lemma", l.src, kw)
			}
		}
		db.Lemmas = append(db.Lemmas, lm)
	}
	return nil
}

func parseClauseInto(fs *FuncSpec, l rawLine) error {
	kw := firstWord(l.text)
	body := strings.TrimSpace(l.text[len(kw):])
	mk := func(kind, s string) (*Clause, error) {
		props, label, reveal, rest := parseTagsR(s)
		e, err := parseExprString(rest)
		if err != nil {
			return nil, err
		}
		return &Clause{Kind: kind, Label: label, Props: props, Reveal: reveal, E: e, Src: l.src, Text: rest}, nil
	}
	switch kw {
	case "returnhint":
		c, err := mk(kw, body)
		if err != nil {
			return err
		}
		fs.ReturnHints = append(fs.ReturnHints, c)
	case "callhint":
		name := firstWord(body)
		c, err := mk(kw, strings.TrimSpace(body[len(name):]))
		if err != nil {
			return err
		}
		if name == "" || strings.HasPrefix(name, "[") {
			return fmt.Errorf("%s: callhint needs the name of the called function", l.src)
		}
		fs.CallHints = append(fs.CallHints, &CallHint{Name: name, C: c})
	case "assumes":
		c, err := mk("ensures", body)
		if err != nil {
			return err
		}
		c.Assumed = true
		fs.Ensures = append(fs.Ensures, c)
	case "requires", "ensures", "panics_if", "panics_iff":
		c, err := mk(kw, body)
		if err != nil {
			return err
		}
		switch kw {
		case "requires":
			fs.Requires = append(fs.Requires, c)
		case "ensures":
			fs.Ensures = append(fs.Ensures, c)
		case "panics_if":
			fs.PanicsIf = append(fs.PanicsIf, c)
		case "panics_iff":
			fs.PanicsIff = append(fs.PanicsIff, c)
		}
	case "refines":
		// refines pkg.Iface.Method with a=b, c=d
		parts := strings.SplitN(body, " with ", 2)
		rf := Refinement{IfaceMethod: strings.TrimSpace(parts[0]), Subst: map[string]string{}, Src: l.src}
		if len(parts) == 2 {
			for _, kv := range strings.Split(parts[1], ",") {
				f := strings.SplitN(strings.TrimSpace(kv), "=", 2)
				if len(f) == 2 {
					rf.Subst[strings.TrimSpace(f[0])] = strings.TrimSpace(f[1])
				}
			}
		}
		fs.Refines = append(fs.Refines, rf)
	case "nopanic":
		fs.NoPanic = true
	case "trusted":
		fs.Trusted = true
	case "inline":
		fs.Inline = true
	case "indexsafe":
		fs.IndexSafe = true
	case "property":
		fs.Props = append(fs.Props, strings.Fields(body)...)
	case "maxpaths":
		n, _ := strconv.Atoi(body)
		fs.MaxPaths = n
	case "assigns":
		fs.AssignsSet = true
		if body == "" || body == "nothing" {
			return nil
		}
		for _, part := range splitTop(body, ',') {
			e, err := parseExprString(part)
			if err != nil {
				return err
			}
			fs.Assigns = append(fs.Assigns, e)
		}
	case "loop":
		// loop K invariant [tags] expr
		f := strings.Fields(body)
		if len(f) < 3 {
			return fmt.Errorf("bad loop clause")
		}
		k, err := strconv.Atoi(f[0])
		if err != nil {
			return fmt.Errorf("bad loop ordinal %q", f[0])
		}
		rest := strings.TrimSpace(strings.TrimPrefix(strings.TrimSpace(strings.TrimPrefix(body, f[0])), f[1]))
		ls := fs.Loops[k]
		if ls == nil {
			ls = &LoopSpec{}
			fs.Loops[k] = ls
		}
		switch f[1] {
		case "invariant":
			c, err := mk("invariant", rest)
			if err != nil {
				return err
			}
			ls.Invariants = append(ls.Invariants, c)
		case "hint":
			c, err := mk("hint", rest)
			if err != nil {
				return err
			}
			ls.Hints = append(ls.Hints, c)
		case "decreases":
			e, err := parseExprString(rest)
			if err != nil {
				return err
			}
			ls.Decreases = e
		default:
			return fmt.Errorf("unknown loop clause %q", f[1])
		}
	case "fnparam":
		// fnparam NAME pure | fnparam NAME ensures expr
		f := strings.Fields(body)
		if len(f) < 2 {
			return fmt.Errorf("bad fnparam clause")
		}
		ps := fs.FnParams[f[0]]
		if ps == nil {
			ps = &FnParamSpec{Name: f[0]}
			fs.FnParams[f[0]] = ps
		}
		switch f[1] {
		case "pure":
			ps.Pure = true
		case "ensures":
			rest := strings.TrimSpace(strings.TrimPrefix(strings.TrimSpace(strings.TrimPrefix(body, f[0])), f[1]))
			c, err := mk("ensures", rest)
			if err != nil {
				return err
			}
			ps.Ensures = append(ps.Ensures, c)
		default:
			return fmt.Errorf("unknown fnparam clause %q", f[1])
		}
	default:
		return fmt.Errorf("unknown clause keyword %q", kw)
	}
	return nil
}

// splitTop splits on sep outside parentheses/brackets.
func splitTop(s string, sep rune) []string {
	var out []string
	depth := 0
	start := 0
	for i, c := range s {
		switch c {
		case '(', '[':
			depth++
		case ')', ']':
			depth--
		default:
			if c == sep && depth == 0 {
				out = append(out, strings.TrimSpace(s[start:i]))
				start = i + 1
			}
		}
	}
	out = append(out, strings.TrimSpace(s[start:]))
	return out
}

// LoadSpecsFromRepo finds all contract files below root; pkgOfDir maps a directory to its import path.
func (db *SpecDB) LoadSpecsFromRepo(root string, pkgOfDir map[string]string) error {
	var files []string
	filepath.Walk(root, func(path string, info os.FileInfo, err error) error {
		if err == nil && !info.IsDir() && strings.HasSuffix(path, "zz_contracts_verif.go") {
			files = append(files, path)
		}
		return nil
	})
	sort.Strings(files)
	for _, f := range files {
		pkg, ok := pkgOfDir[filepath.Dir(f)]
		if !ok {
			return fmt.Errorf("contract file %s is not in a loaded package directory", f)
		}
		if err := db.LoadSpecFile(f, pkg); err != nil {
			return err
		}
	}
	return nil
}

// substCalls renames spec function calls and identifiers in an expression.
func substExpr(ex Expr, calls map[string]string, idents map[string]string) Expr {
	r := func(e Expr) Expr {
		if e == nil {
			return nil
		}
		return substExpr(e, calls, idents)
	}
	switch e := ex.(type) {
	case *EIdent:
		if n, ok := idents[e.Name]; ok {
			return &EIdent{Name: n}
		}
		return e
	case *EUnary:
		return &EUnary{Op: e.Op, X: r(e.X)}
	case *EBinary:
		return &EBinary{Op: e.Op, X: r(e.X), Y: r(e.Y)}
	case *ECond:
		return &ECond{C: r(e.C), A: r(e.A), B: r(e.B)}
	case *EField:
		return &EField{X: r(e.X), Name: e.Name}
	case *EIndex:
		return &EIndex{X: r(e.X), I: r(e.I)}
	case *ESlice:
		return &ESlice{X: r(e.X), Lo: r(e.Lo), Hi: r(e.Hi)}
	case *ECall:
		name := e.Fn
		if n, ok := calls[name]; ok {
			name = n
		} else if i := strings.LastIndex(name, "."); i >= 0 {
			if n, ok := calls[name[i+1:]]; ok {
				name = n
			}
		}
		var as []Expr
		for _, a := range e.Args {
			as = append(as, r(a))
		}
		return &ECall{Fn: name, Args: as}
	case *EAssert:
		return &EAssert{X: r(e.X), T: e.T}
	case *EOld:
		return &EOld{X: r(e.X)}
	case *EQuant:
		id2 := map[string]string{}
		for k, v := range idents {
			id2[k] = v
		}
		for _, b := range e.Vars {
			delete(id2, b.Name)
		}
		return &EQuant{Forall: e.Forall, Vars: e.Vars, Body: substExpr(e.Body, calls, id2)}
	case *ELet:
		id2 := map[string]string{}
		for k, v := range idents {
			id2[k] = v
		}
		delete(id2, e.Name)
		return &ELet{Name: e.Name, Val: r(e.Val), Body: substExpr(e.Body, calls, id2)}
	}
	return ex
}
