package main

// Evaluation of contract expressions to SMT terms in a symbolic state.

import (
	"fmt"
	"go/constant"
	"go/types"
	"math/big"
	"sort"
	"strings"

	"golang.org/x/tools/go/ssa"
)

// SV: a spec-level value. Typ is the Go type when there is one (nil for pure spec values).
type SV struct {
	T   *Term
	Typ types.Type
	// Pointee: the variable stands for a pointer parameter of a pure function but carries the pointed-to value (application axioms):
	// "*c" and "c.f" both read this value, no heap is involved.
	Pointee bool
}

type Env struct {
	x        *Exec
	st       *State // current state
	old      *State // state for old(...)
	inOld    bool
	vars     map[string]SV
	pkg      *ssa.Package
	fr       *Frame
	loop     *Loop
	allocOld *Term
	side     []*Term
	bound    []*Term
	fuel     int
	fuelSet  bool
	// call-site post-state support
	lazyHavoc func(comp string, srt Sort) *Term
	lazyPre   *State
	touched   map[string]Sort
	// probing which heap components a spec function reads
	reads map[string]Sort
	unfoldNext bool
}

func (x *Exec) entryEnv(st *State) *Env {
	return &Env{x: x, st: st, old: x.vc.entry, vars: copyVars(x.vc.paramEnv), pkg: x.vc.fn.Package(), allocOld: x.vc.allocBase}
}

func (x *Exec) entryEnvOld() *Env {
	return &Env{x: x, st: x.vc.entry, old: x.vc.entry, vars: copyVars(x.vc.paramEnv), pkg: x.vc.fn.Package(), allocOld: x.vc.allocBase}
}

func (e *Env) takeSide() []*Term {
	s := e.side
	e.side = nil
	return s
}

func (e *Env) state() *State {
	if e.inOld {
		return e.old
	}
	return e.st
}

func (e *Env) heap(comp string, srt Sort) *Term {
	if e.reads != nil {
		e.reads[comp] = srt
	}
	if !e.inOld && e.touched != nil {
		e.touched[comp] = srt
	}
	return e.x.heapGet(e.state(), comp, srt)
}

func (e *Env) getFuel() int {
	if e.fuelSet {
		return e.fuel
	}
	return 2
}

// addRefWf records that a reference (map / pointer) read from the heap in a contract points below the allocation
// counter of the state it was read in (global well-formedness invariant of heaps; closed over bound variables).
func (e *Env) addRefWf(val *Term, typ types.Type) {
	if typ == nil {
		return
	}
	switch types.Unalias(typ).Underlying().(type) {
	case *types.Map, *types.Pointer:
	default:
		return
	}
	al := e.state().alloc
	if al == nil {
		return
	}
	t := And(Cmp(">=", val, IntLit(0)), Cmp("<", val, al))
	var bvs []*Term
	txt := t.String()
	for _, b := range e.bound {
		if strings.Contains(txt, b.Op) {
			bvs = append(bvs, b)
		}
	}
	if len(bvs) > 0 {
		t = Forall(bvs, t, []*Term{val})
	}
	e.side = append(e.side, t)
}

func specFail(format string, a ...interface{}) {
	panic(unsupported{"contract: " + fmt.Sprintf(format, a...)})
}

func (x *Exec) evalBool(env *Env, ex Expr) *Term {
	v := x.eval(env, ex)
	if v.T.Sort != SBool {
		specFail("expression %s is not boolean", ex.exprString())
	}
	return v.T
}

func (x *Exec) resolveType(env *Env, te TypeExpr) (types.Type, Sort) {
	s := te.Text
	switch s {
	case "int":
		return types.Typ[types.Int], SInt
	case "real", "float64":
		return types.Typ[types.Float64], SReal
	case "bool":
		return types.Typ[types.Bool], SBool
	case "string":
		return types.Typ[types.String], SStr
	}
	if strings.HasPrefix(s, "*") {
		t, _ := x.resolveType(env, TypeExpr{s[1:]})
		return types.NewPointer(t), SInt
	}
	if strings.HasPrefix(s, "func(") {
		// func(T1,T2)R
		depth, end := 0, -1
		for i := 4; i < len(s); i++ {
			if s[i] == '(' {
				depth++
			} else if s[i] == ')' {
				depth--
				if depth == 0 {
					end = i
					break
				}
			}
		}
		if end < 0 {
			specFail("malformed function type %q", s)
		}
		var vars []*types.Var
		if inner := s[5:end]; inner != "" {
			for _, pt := range strings.Split(inner, ",") {
				t, _ := x.resolveType(env, TypeExpr{pt})
				vars = append(vars, types.NewVar(0, nil, "", t))
			}
		}
		rt, _ := x.resolveType(env, TypeExpr{s[end+1:]})
		sig := types.NewSignatureType(nil, nil, nil, types.NewTuple(vars...), types.NewTuple(types.NewVar(0, nil, "", rt)), false)
		return sig, SInt
	}
	if strings.HasPrefix(s, "[]") {
		t, _ := x.resolveType(env, TypeExpr{s[2:]})
		return types.NewSlice(t), SSlice
	}
	if strings.HasPrefix(s, "map[") {
		// map[K]V
		depth := 0
		for i := 3; i < len(s); i++ {
			if s[i] == '[' {
				depth++
			} else if s[i] == ']' {
				depth--
				if depth == 0 {
					k, _ := x.resolveType(env, TypeExpr{s[4:i]})
					v, _ := x.resolveType(env, TypeExpr{s[i+1:]})
					return types.NewMap(k, v), SInt
				}
			}
		}
	}
	var obj types.Object
	if i := strings.Index(s, "."); i >= 0 {
		q, n := s[:i], s[i+1:]
		for _, p := range x.prog.AllPackages() {
			if p.Pkg.Name() == q || shortPkgName(p.Pkg.Path()) == q {
				if o := p.Pkg.Scope().Lookup(n); o != nil {
					obj = o
					break
				}
			}
		}
	} else if env.pkg != nil {
		obj = env.pkg.Pkg.Scope().Lookup(s)
		if obj == nil {
			for _, imp := range env.pkg.Pkg.Imports() {
				if o := imp.Scope().Lookup(s); o != nil {
					if _, ok := o.(*types.TypeName); ok {
						obj = o
						break
					}
				}
			}
		}
	}
	if tn, ok := obj.(*types.TypeName); ok {
		return tn.Type(), x.TI.SortOf(tn.Type())
	}
	specFail("unknown type %q", s)
	return nil, ""
}

func numLit(text string) *Term {
	if strings.ContainsAny(text, ".eE") {
		r, ok := new(big.Rat).SetString(text)
		if !ok {
			specFail("bad number %s", text)
		}
		// a decimal literal in a contract denotes the float64 constant Go would compile it to (so that 0.000001 in a
		// contract and 1e-6 in the code are the same real number)
		if f, exact := r.Float64(); !exact {
			if r2 := new(big.Rat).SetFloat64(f); r2 != nil {
				r = r2
			}
		}
		return RealLitRat(r)
	}
	n, ok := new(big.Int).SetString(text, 10)
	if !ok {
		specFail("bad number %s", text)
	}
	return BigIntLit(n)
}

func (x *Exec) eval(env *Env, ex Expr) SV {
	switch e := ex.(type) {
	case *ENum:
		return SV{T: numLit(e.Text)}
	case *EStr:
		return SV{T: x.TI.StrLit(e.Val), Typ: types.Typ[types.String]}
	case *EBool:
		if e.Val {
			return SV{T: TTrue}
		}
		return SV{T: TFalse}
	case *EIdent:
		return x.evalIdent(env, e.Name)
	case *EOld:
		saved := env.inOld
		env.inOld = true
		v := x.eval(env, e.X)
		env.inOld = saved
		return v
	case *EUnary:
		v := x.eval(env, e.X)
		switch e.Op {
		case "!":
			return SV{T: Not(v.T)}
		case "-":
			if v.T.Sort == SReal {
				if v.T.Kind == kLit {
					return SV{T: Arith("-", RealLitStr("0"), v.T)}
				}
				return SV{T: App("-", SReal, v.T)}
			}
			return SV{T: Arith("-", IntLit(0), v.T)}
		case "*":
			return x.derefSV(env, v)
		}
	case *EBinary:
		return x.evalBinary(env, e)
	case *ECond:
		c := x.evalBool(env, e.C)
		a := x.eval(env, e.A)
		b := x.eval(env, e.B)
		typ := a.Typ
		if typ == nil {
			typ = b.Typ
		}
		return SV{T: Ite(c, a.T, b.T), Typ: typ}
	case *EField:
		if id, ok := e.X.(*EIdent); ok {
			if _, isVar := env.vars[id.Name]; !isVar {
				for _, p := range x.prog.AllPackages() {
					if (p.Pkg.Name() == id.Name || shortPkgName(p.Pkg.Path()) == id.Name) && strings.Contains(p.Pkg.Path(), "RealDecisionMaker") {
						if c, ok := p.Pkg.Scope().Lookup(e.Name).(*types.Const); ok {
							return x.constSV(c)
						}
						// a package-level function used as a value (e.g. model.WeightIdentity handed to a mapper parameter)
						if fo, ok := p.Pkg.Scope().Lookup(e.Name).(*types.Func); ok {
							if fn := x.prog.FuncValue(fo); fn != nil {
								name := "fnval_" + sanitize(shortFuncName(fn))
								x.U.Declare(name, SInt)
								x.closureAxiom(fn, name)
								return SV{T: App(name, SInt), Typ: fo.Type()}
							}
						}
					}
				}
			}
		}
		v := x.eval(env, e.X)
		return x.fieldSV(env, v, e.Name)
	case *EIndex:
		v := x.eval(env, e.X)
		i := x.eval(env, e.I)
		return x.indexSV(env, v, i)
	case *ESlice:
		v := x.eval(env, e.X)
		if v.T.Sort != SSlice {
			specFail("slicing a non-slice")
		}
		lo := IntLit(0)
		if e.Lo != nil {
			lo = x.eval(env, e.Lo).T
		}
		hi := SlLen(v.T)
		if e.Hi != nil {
			hi = x.eval(env, e.Hi).T
		}
		return SV{T: MkSlice(SlArr(v.T), Arith("+", SlOff(v.T), lo), Arith("-", hi, lo), Arith("-", SlCap(v.T), lo)), Typ: v.Typ}
	case *EAssert:
		v := x.eval(env, e.X)
		t, _ := x.resolveType(env, e.T)
		return SV{T: x.TI.Unbox(t, v.T), Typ: t}
	case *ECall:
		return x.evalCall(env, e)
	case *EQuant:
		var bvs []*Term
		saved := map[string]*SV{}
		for _, b := range e.Vars {
			t, s := x.resolveType(env, b.T)
			x.n++
			bv := Var(fmt.Sprintf("q_%s_%d", sanitize(b.Name), x.n), s)
			bvs = append(bvs, bv)
			if old, ok := env.vars[b.Name]; ok {
				o := old
				saved[b.Name] = &o
			} else {
				saved[b.Name] = nil
			}
			if b.T.Text == "int" || b.T.Text == "real" || b.T.Text == "bool" {
				t = nil
			}
			env.vars[b.Name] = SV{T: bv, Typ: t}
		}
		nb := len(env.bound)
		env.bound = append(env.bound, bvs...)
		body := x.evalBool(env, e.Body)
		env.bound = env.bound[:nb]
		for n, o := range saved {
			if o == nil {
				delete(env.vars, n)
			} else {
				env.vars[n] = *o
			}
		}
		pats := x.choosePatterns(bvs, body)
		if e.Forall {
			return SV{T: Forall(bvs, body, pats...)}
		}
		if len(pats) > 0 && len(bvs) > 0 {
			return SV{T: &Term{Op: "exists", Sort: SBool, Kind: kQuant, Bound: bvs, Args: []*Term{body}, Pats: pats}}
		}
		return SV{T: Exists(bvs, body)}
	case *ELet:
		v := x.eval(env, e.Val)
		old, had := env.vars[e.Name]
		env.vars[e.Name] = v
		r := x.eval(env, e.Body)
		if had {
			env.vars[e.Name] = old
		} else {
			delete(env.vars, e.Name)
		}
		return r
	}
	specFail("cannot evaluate %s", ex.exprString())
	return SV{}
}

// choosePatterns selects instantiation triggers for a quantifier written in a contract: array reads and applications of
// uninterpreted functions whose arguments mention the bound variables directly (no arithmetic on them).  Explicit
// triggers make the solvers' behaviour independent of incidental term shapes; a quantifier without a usable trigger is
// left to the solver.
func (x *Exec) choosePatterns(bvs []*Term, body *Term) [][]*Term {
	if len(bvs) == 0 {
		return nil
	}
	isB := map[string]int{}
	for i, b := range bvs {
		isB[b.Op] = i
	}
	type cand struct {
		t    *Term
		vars map[int]bool
		size int
	}
	var cands []cand
	seen := map[string]bool{}
	var visit func(t *Term) (vars map[int]bool, size int, clean bool, foreign bool)
	visit = func(t *Term) (map[int]bool, int, bool, bool) {
		switch t.Kind {
		case kVar:
			if i, ok := isB[t.Op]; ok {
				return map[int]bool{i: true}, 1, true, false
			}
			if strings.HasPrefix(t.Op, "q_") || strings.HasPrefix(t.Op, "r_") {
				return nil, 1, true, true // variable of an enclosing / nested quantifier
			}
			return nil, 1, true, false
		case kLit:
			return nil, 1, true, false
		case kQuant:
			// look inside for candidates, but terms there may mention the inner variables
			inner := map[string]bool{}
			for _, b := range t.Bound {
				inner[b.Op] = true
			}
			vs, sz, _, _ := visit(t.Args[0])
			return vs, sz + 1, false, false
		}
		vars := map[int]bool{}
		size := 1
		clean := true
		foreign := false
		for _, a := range t.Args {
			vs, sz, cl, fo := visit(a)
			for v := range vs {
				vars[v] = true
			}
			size += sz
			clean = clean && cl
			foreign = foreign || fo
		}
		arith := false
		switch t.Op {
		case "+", "-", "*", "/", "div", "mod", "godiv", "gomod", "to_real", "to_int", "trunc", "rabs", "rmin", "rmax",
			"<", "<=", ">", ">=", "=", "and", "or", "not", "=>", "ite", "distinct":
			arith = true
		}
		if arith {
			if len(vars) > 0 {
				// "variable +/- literal" stays usable inside a trigger (matching is syntactic, the goal has the same shape)
				offset := (t.Op == "+" || t.Op == "-") && len(t.Args) == 2 && clean &&
					((t.Args[0].Kind == kVar && t.Args[1].Kind == kLit) || (t.Args[1].Kind == kVar && t.Args[0].Kind == kLit && t.Op == "+"))
				if !offset {
					clean = false
				}
			}
			return vars, size, clean, foreign
		}
		if len(vars) > 0 && clean && !foreign && size <= 40 {
			_, isFn := x.U.funcs[t.Op]
			if t.Op == "select" || isFn {
				k := t.String()
				if !seen[k] {
					seen[k] = true
					cands = append(cands, cand{t: t, vars: vars, size: size})
				}
			}
		}
		return vars, size, clean, foreign
	}
	visit(body)
	if len(cands) == 0 {
		return nil
	}
	sort.SliceStable(cands, func(i, j int) bool { return cands[i].size < cands[j].size })
	// candidates covering all variables
	var full []cand
	for _, c := range cands {
		if len(c.vars) == len(bvs) {
			full = append(full, c)
		}
	}
	// drop candidates that contain a smaller candidate with the same variables (prefer the innermost reads)
	minimal := func(cs []cand) []cand {
		var out []cand
		for _, c := range cs {
			contains := false
			for _, d := range cs {
				if d.t != c.t && d.size < c.size && len(d.vars) == len(c.vars) && strings.Contains(c.t.String(), d.t.String()) {
					contains = true
					break
				}
			}
			if !contains {
				out = append(out, c)
			}
		}
		return out
	}
	if len(full) > 0 {
		var pats [][]*Term
		for _, c := range minimal(full) {
			pats = append(pats, []*Term{c.t})
			if len(pats) >= 3 {
				break
			}
		}
		return pats
	}
	// one multi-pattern: for each variable the smallest candidate mentioning it
	var pat []*Term
	covered := map[int]bool{}
	for i := range bvs {
		if covered[i] {
			continue
		}
		found := false
		for _, c := range cands {
			if c.vars[i] {
				pat = append(pat, c.t)
				for v := range c.vars {
					covered[v] = true
				}
				found = true
				break
			}
		}
		if !found {
			return nil
		}
	}
	return [][]*Term{pat}
}

// shadowingLocal: "$i" in a loop invariant names the live local i (also the slot a reassigned parameter lives in: its current
// value) where the parameter's entry value would otherwise be meant, e.g. "for i, p := range ..." in a method whose receiver is called i.
func (x *Exec) shadowingLocal(env *Env, name string) *ssa.Alloc {
	if env.fr == nil {
		return nil
	}
	var best *ssa.Alloc
	for _, a := range x.info(env.fr.fn).allocsByName[name] {
		if _, live := env.fr.vals[a]; !live {
			continue
		}
		if best == nil || env.fr.order[a] > env.fr.order[best] {
			best = a
		}
	}
	return best
}

func (x *Exec) evalIdent(env *Env, name string) SV {
	if strings.HasPrefix(name, "$") {
		if a := x.shadowingLocal(env, name[1:]); a != nil {
			if val := env.fr.vals[a]; val.Loc != nil {
				return SV{T: x.load(env.st, val.Loc), Typ: deref(a.Type())}
			}
		}
		specFail("no live local %q", name[1:])
	}
	if v, ok := env.vars[name]; ok {
		return v
	}
	if v, ok := env.vars["&"+name]; ok {
		// captured variable: stored behind a pointer
		return x.derefSV(env, v)
	}
	if name == "nil" {
		return SV{T: IntLit(0)}
	}
	if env.fr != nil {
		fi := x.info(env.fr.fn)
		if len(name) > 4 && strings.HasPrefix(name, "iter") && strings.Trim(name[4:], "0123456789") == "" {
			// iterK: the iteration counter of the (enclosing) range loop K
			for _, lp := range fi.loops {
				if fmt.Sprint(lp.ordinal) == name[4:] && lp.rangeCell != nil {
					if ri, ok := env.st.cells[cellKey{env.fr.id, lp.rangeCell}]; ok {
						return SV{T: Arith("+", ri, IntLit(1))}
					}
					specFail("%s: the index of loop %d is not live here", name, lp.ordinal)
				}
			}
			specFail("%s: no such range loop", name)
		}
		if name == "iter" && env.loop != nil && env.loop.rangeCell != nil {
			// (locals and the iteration counter do not exist in the old state: inside old(...) they keep their current value)
			ri, ok := env.st.cells[cellKey{env.fr.id, env.loop.rangeCell}]
			if !ok {
				specFail("iter: range index not available")
			}
			return SV{T: Arith("+", ri, IntLit(1))}
		}
		if as := fi.allocsByName[name]; len(as) > 0 {
			var best *ssa.Alloc
			for _, a := range as {
				if _, ok := env.fr.vals[a]; ok {
					if best == nil || env.fr.order[a] > env.fr.order[best] {
						best = a
					}
				}
			}
			if best != nil {
				val := env.fr.vals[best]
				if val.Loc == nil {
					specFail("local %q is not addressable", name)
				}
				return SV{T: x.load(env.st, val.Loc), Typ: deref(best.Type())}
			}
		}
		if name == "iter" && env.loop != nil && env.loop.rangeIdx != nil {
			ri := env.fr.vals[env.loop.rangeIdx]
			return SV{T: Arith("+", ri.T, IntLit(1))}
		}
		if v, ok := fi.names[name]; ok {
			switch v := v.(type) {
			case *ssa.Alloc:
				val, ok := env.fr.vals[v]
				if !ok || val.Loc == nil {
					specFail("local %q is not allocated at this point", name)
				}
				return SV{T: x.load(env.st, val.Loc), Typ: deref(v.Type())}
			default:
				if val, ok := env.fr.vals[v]; ok && val.T != nil {
					return SV{T: val.T, Typ: v.Type()}
				}
			}
		}
		// phi by comment
		for _, b := range env.fr.fn.Blocks {
			for _, ins := range b.Instrs {
				if p, ok := ins.(*ssa.Phi); ok && p.Comment == name {
					if val, ok := env.fr.vals[p]; ok && val.T != nil {
						return SV{T: val.T, Typ: p.Type()}
					}
				}
			}
		}
	}
	// package-level constants
	if env.pkg != nil {
		if obj := env.pkg.Pkg.Scope().Lookup(name); obj != nil {
			if c, ok := obj.(*types.Const); ok {
				return x.constSV(c)
			}
		}
		for _, imp := range env.pkg.Pkg.Imports() {
			if obj := imp.Scope().Lookup(name); obj != nil {
				if c, ok := obj.(*types.Const); ok && strings.Contains(imp.Path(), "RealDecisionMaker") {
					return x.constSV(c)
				}
			}
		}
	}
	if strings.HasPrefix(name, "last_") {
		if t, ok := env.state().ghost["last:"+name[5:]]; ok {
			return SV{T: t, Typ: x.lastTypes[name[5:]]}
		}
		specFail("%s: no live local: no call of %s on this path since the last loop cut", name, name[5:])
	}
	specFail("unknown identifier %q", name)
	return SV{}
}

func (x *Exec) constSV(c *types.Const) SV {
	t := c.Type()
	switch x.TI.SortOf(t) {
	case SStr:
		return SV{T: x.TI.StrLit(constant.StringVal(c.Val())), Typ: t}
	case SInt:
		n, _ := new(big.Int).SetString(c.Val().ExactString(), 10)
		return SV{T: BigIntLit(n), Typ: t}
	case SReal:
		if f, _ := constant.Float64Val(c.Val()); true {
			if r := new(big.Rat).SetFloat64(f); r != nil {
				return SV{T: RealLitRat(r), Typ: t}
			}
		}
		return SV{T: realOfConstant(c.Val()), Typ: t}
	case SBool:
		if constant.BoolVal(c.Val()) {
			return SV{T: TTrue, Typ: t}
		}
		return SV{T: TFalse, Typ: t}
	}
	specFail("constant %s of unsupported type", c.Name())
	return SV{}
}

func (x *Exec) derefSV(env *Env, v SV) SV {
	if v.Pointee {
		return SV{T: v.T, Typ: v.Typ}
	}
	if v.Typ == nil {
		specFail("dereference of a value without Go type")
	}
	pt, ok := types.Unalias(v.Typ).Underlying().(*types.Pointer)
	if !ok {
		specFail("dereference of non-pointer %s", v.Typ)
	}
	s := x.TI.SortOf(pt.Elem())
	r := Select(env.heap(hpComp(s), hpSort(s)), v.T)
	env.addRefWf(r, pt.Elem())
	return SV{T: r, Typ: pt.Elem()}
}

// findField locates a (possibly promoted) field; returns the index path.
func findField(t types.Type, name string, depth int) ([]int, types.Type) {
	st, ok := types.Unalias(t).Underlying().(*types.Struct)
	if !ok || depth > 3 {
		return nil, nil
	}
	for i := 0; i < st.NumFields(); i++ {
		if st.Field(i).Name() == name {
			return []int{i}, st.Field(i).Type()
		}
	}
	for i := 0; i < st.NumFields(); i++ {
		if st.Field(i).Embedded() {
			ft := st.Field(i).Type()
			if p, ok := types.Unalias(ft).Underlying().(*types.Pointer); ok {
				_ = p
				continue
			}
			if path, typ := findField(ft, name, depth+1); path != nil {
				return append([]int{i}, path...), typ
			}
		}
	}
	return nil, nil
}

func (x *Exec) fieldSV(env *Env, v SV, name string) SV {
	if v.Typ == nil {
		specFail("field %s of a value without Go type", name)
	}
	if _, ok := types.Unalias(v.Typ).Underlying().(*types.Pointer); ok {
		v = x.derefSV(env, v)
	}
	path, ft := findField(v.Typ, name, 0)
	if path == nil {
		specFail("type %s has no field %s", v.Typ, name)
	}
	t := v.T
	cur := v.Typ
	for _, i := range path {
		s := x.TI.SortOf(cur)
		t = x.TI.FieldSel(s, i, t)
		cur = types.Unalias(cur).Underlying().(*types.Struct).Field(i).Type()
	}
	return SV{T: t, Typ: ft}
}

func (x *Exec) indexSV(env *Env, v SV, i SV) SV {
	if v.Typ != nil {
		if _, ok := types.Unalias(v.Typ).Underlying().(*types.Pointer); ok {
			v = x.derefSV(env, v)
		}
		switch u := types.Unalias(v.Typ).Underlying().(type) {
		case *types.Slice:
			comp, cs := x.elemComp(u.Elem())
			h := env.heap(comp, cs)
			r := Select(Select(h, SlArr(v.T)), Sidx(SlOff(v.T), i.T))
			env.addRefWf(r, u.Elem())
			return SV{T: r, Typ: u.Elem()}
		case *types.Map:
			ks, vs := x.TI.SortOf(u.Key()), x.TI.SortOf(u.Elem())
			mv := env.heap(mvComp(ks, vs), mvSort(ks, vs))
			r := Select(Select(mv, v.T), i.T)
			return SV{T: r, Typ: u.Elem()}
		}
	}
	if v.T.Sort.IsArray() {
		return SV{T: Select(v.T, i.T)}
	}
	specFail("indexing a value that is neither slice, map nor array")
	return SV{}
}

func (x *Exec) evalBinary(env *Env, e *EBinary) SV {
	switch e.Op {
	case "&&":
		return SV{T: And(x.evalBool(env, e.X), x.evalBool(env, e.Y))}
	case "||":
		// a disjunct that names a local which does not exist on this path is left unconstrained (see "==>")
		part := func(ex Expr) (t *Term) {
			defer func() {
				if r := recover(); r != nil {
					if u, ok := r.(unsupported); ok && (strings.Contains(u.msg, "is not allocated at this point") || strings.Contains(u.msg, "no live local")) {
						t = x.freshVar("undef", SBool)
						return
					}
					panic(r)
				}
			}()
			return x.evalBool(env, ex)
		}
		return SV{T: Or(part(e.X), part(e.Y))}
	case "==>":
		ante := x.evalBool(env, e.X)
		// a consequent that names a local which does not exist on this path (e.g. declared in the other branch) is left
		// unconstrained: the implication is then provable only where the antecedent is false
		cons := func() (t *Term) {
			defer func() {
				if r := recover(); r != nil {
					if u, ok := r.(unsupported); ok && (strings.Contains(u.msg, "is not allocated at this point") || strings.Contains(u.msg, "no live local")) {
						t = x.freshVar("undef", SBool)
						return
					}
					panic(r)
				}
			}()
			return x.evalBool(env, e.Y)
		}()
		return SV{T: Implies(ante, cons)}
	case "<==>":
		return SV{T: Iff(x.evalBool(env, e.X), x.evalBool(env, e.Y))}
	case "in":
		k := x.eval(env, e.X)
		m := x.eval(env, e.Y)
		if m.Typ != nil {
			if _, ok := types.Unalias(m.Typ).Underlying().(*types.Pointer); ok {
				m = x.derefSV(env, m)
			}
			if mt, ok := types.Unalias(m.Typ).Underlying().(*types.Map); ok {
				ks, vs := x.TI.SortOf(mt.Key()), x.TI.SortOf(mt.Elem())
				md := env.heap(mdComp(ks, vs), mdSort(ks))
				return SV{T: And(Not(Eq(m.T, IntLit(0))), Select(Select(md, m.T), k.T))}
			}
		}
		if m.T.Sort.IsArray() {
			return SV{T: Select(m.T, k.T)}
		}
		specFail("'in' needs a map or set on the right")
	}
	a := x.eval(env, e.X)
	b := x.eval(env, e.Y)
	// nil comparisons
	if id, ok := e.Y.(*EIdent); ok && id.Name == "nil" && (e.Op == "==" || e.Op == "!=") {
		var t *Term
		switch a.T.Sort {
		case SSlice:
			t = Eq(SlArr(a.T), IntLit(0))
		case SIface:
			t = Eq(x.TI.IfaceTag(a.T), IntLit(0))
		default:
			t = Eq(a.T, IntLit(0))
		}
		if e.Op == "!=" {
			t = Not(t)
		}
		return SV{T: t}
	}
	switch e.Op {
	case "+", "-", "*", "/", "%":
		if a.T.Sort == SStr && e.Op == "+" {
			x.U.Declare("str_concat", SStr, SStr, SStr)
			return SV{T: App("str_concat", SStr, a.T, b.T), Typ: a.Typ}
		}
		at, bt := a.T, b.T
		if e.Op == "/" && (at.Sort == SReal || bt.Sort == SReal) {
			at, bt = ToReal(at), ToReal(bt)
		}
		r := Arith(e.Op, at, bt)
		typ := a.Typ
		if typ == nil {
			typ = b.Typ
		}
		if r.Sort == SReal && typ != nil && x.TI.SortOf(typ) != SReal {
			typ = nil
		}
		return SV{T: r, Typ: typ}
	case "==":
		return SV{T: Eq(a.T, b.T)}
	case "!=":
		return SV{T: Not(Eq(a.T, b.T))}
	case "<", "<=", ">", ">=":
		if a.T.Sort == SStr {
			lt := x.strLt()
			switch e.Op {
			case "<":
				return SV{T: App(lt, SBool, a.T, b.T)}
			case ">":
				return SV{T: App(lt, SBool, b.T, a.T)}
			case "<=":
				return SV{T: Not(App(lt, SBool, b.T, a.T))}
			default:
				return SV{T: Not(App(lt, SBool, a.T, b.T))}
			}
		}
		return SV{T: Cmp(e.Op, a.T, b.T)}
	}
	specFail("operator %s", e.Op)
	return SV{}
}

func (x *Exec) evalCall(env *Env, e *ECall) SV {
	arg := func(i int) SV {
		if i >= len(e.Args) {
			specFail("%s: too few arguments", e.Fn)
		}
		return x.eval(env, e.Args[i])
	}
	switch e.Fn {
	case "unfold":
		// unfold(f(args)): the application of an opaque spec function together with its defining equation for these arguments
		if len(e.Args) != 1 {
			specFail("unfold needs one argument")
		}
		env.unfoldNext = true
		r := x.eval(env, e.Args[0])
		env.unfoldNext = false
		return r
	case "len":
		v := arg(0)
		if v.Typ != nil {
			if _, ok := types.Unalias(v.Typ).Underlying().(*types.Pointer); ok {
				v = x.derefSV(env, v)
			}
		}
		if v.T.Sort == SSlice {
			return SV{T: SlLen(v.T)}
		}
		if v.T.Sort == SStr {
			x.U.Declare("str_len", SInt, SStr)
			return SV{T: App("str_len", SInt, v.T)}
		}
		if v.Typ != nil {
			if mt, ok := types.Unalias(v.Typ).Underlying().(*types.Map); ok {
				ks, vs := x.TI.SortOf(mt.Key()), x.TI.SortOf(mt.Elem())
				md := env.heap(mdComp(ks, vs), mdSort(ks))
				fn := "card_" + mangleSort(ks)
				x.U.Declare(fn, SInt, ArraySort(ks, SBool))
				return SV{T: Ite(Eq(v.T, IntLit(0)), IntLit(0), App(fn, SInt, Select(md, v.T)))}
			}
		}
		specFail("len of unsupported value")
	case "cap":
		return SV{T: SlCap(arg(0).T)}
	case "arr":
		return SV{T: SlArr(arg(0).T)}
	case "off":
		return SV{T: SlOff(arg(0).T)}
	case "head":
		// head(e): e evaluated in the state at the head of the current iteration of the loop the clause belongs to
		if env.loop == nil || env.st == nil || env.st.heads == nil || env.st.heads[env.loop] == nil {
			specFail("head(...) is only meaningful in a loop hint or invariant")
		}
		hs := env.st.heads[env.loop]
		he := &Env{x: x, st: hs, old: env.old, vars: env.vars, pkg: env.pkg, allocOld: env.allocOld, loop: env.loop, bound: env.bound}
		if len(hs.frames) > 0 {
			he.fr = hs.frames[0]
		}
		r := x.eval(he, e.Args[0])
		env.side = append(env.side, he.takeSide()...)
		return r
	case "fresh":
		v := arg(0)
		id := x.idOf(v)
		// the address of a field of another object is modelled as a copy in a new cell (written back on use): it is an interior
		// pointer, never "a freshly allocated object"
		for _, m := range env.state().mats {
			if m.addr.String() == id.String() {
				return SV{T: TFalse}
			}
		}
		return SV{T: Cmp(">=", id, env.allocOld)}
	case "isnil":
		v := arg(0)
		switch v.T.Sort {
		case SSlice:
			return SV{T: Eq(SlArr(v.T), IntLit(0))}
		case SIface:
			return SV{T: Eq(x.TI.IfaceTag(v.T), IntLit(0))}
		}
		return SV{T: Eq(v.T, IntLit(0))}
	case "typeis":
		v := arg(0)
		targ := e.Args[1]
		ptr := ""
		for {
			u, isU := targ.(*EUnary)
			if !isU || u.Op != "*" {
				break
			}
			ptr += "*"
			targ = u.X
		}
		id, ok := targ.(*EIdent)
		tn := ""
		if ok {
			tn = id.Name
		} else if f, ok := targ.(*EField); ok {
			if q, ok := f.X.(*EIdent); ok {
				tn = q.Name + "." + f.Name
			}
		}
		if tn == "" {
			specFail("typeis needs a type name")
		}
		t, _ := x.resolveType(env, TypeExpr{ptr + tn})
		return SV{T: Eq(x.TI.IfaceTag(v.T), IntLit(int64(x.TI.Tag(t))))}
	case "abs":
		return SV{T: App("rabs", SReal, ToReal(arg(0).T))}
	case "min":
		return SV{T: App("rmin", SReal, ToReal(arg(0).T), ToReal(arg(1).T))}
	case "max":
		return SV{T: App("rmax", SReal, ToReal(arg(0).T), ToReal(arg(1).T))}
	case "real":
		return SV{T: ToReal(arg(0).T)}
	case "trunc":
		return SV{T: App("trunc", SInt, arg(0).T)}
	case "floor":
		return SV{T: App("to_int", SInt, arg(0).T)}
	case "exp":
		return SV{T: x.mathFn("exp", arg(0).T)}
	case "round":
		return SV{T: x.mathFn("round", arg(0).T)}
	case "pow":
		x.U.Declare("math_pow", SReal, SReal, SReal)
		return SV{T: App("math_pow", SReal, arg(0).T, arg(1).T)}
	case "str_lt":
		return SV{T: App(x.strLt(), SBool, arg(0).T, arg(1).T)}
	case "has_prefix":
		x.U.Declare("str_has_prefix", SBool, SStr, SStr)
		return SV{T: App("str_has_prefix", SBool, arg(0).T, arg(1).T)}
	case "itoa":
		x.U.Declare("str_itoa", SStr, SInt)
		return SV{T: App("str_itoa", SStr, arg(0).T)}
	case "appfn":
		// appfn(f, x): the value a pure function-typed parameter f returns for x, when that value is itself a function
		f, a := arg(0), arg(1)
		x.U.Declare("app_Int_Int", SInt, SInt, SInt)
		return SV{T: App("app_Int_Int", SInt, f.T, a.T)}
	case "apply":
		// apply(f, a1..an): the value the pure function-typed parameter (or contract-carrying function value) f returns for these
		// arguments; a pointer parameter of f is given as the value it points to.
		f := arg(0)
		var sig *types.Signature
		if f.Typ != nil {
			sig, _ = types.Unalias(f.Typ).Underlying().(*types.Signature)
		}
		if sig == nil || sig.Results().Len() != 1 {
			specFail("apply: first argument must be a function with one result")
		}
		if len(e.Args)-1 != sig.Params().Len() {
			specFail("apply: %d arguments for a function of %d parameters", len(e.Args)-1, sig.Params().Len())
		}
		ats := []*Term{f.T}
		asorts := []Sort{SInt}
		rs := x.TI.SortOf(sig.Results().At(0).Type())
		fname := "app_" + mangleSort(rs)
		for i := 1; i < len(e.Args); i++ {
			a := arg(i)
			pt := sig.Params().At(i - 1).Type()
			want := x.TI.SortOf(pt)
			if pp, ok := types.Unalias(pt).Underlying().(*types.Pointer); ok {
				want = x.TI.SortOf(pp.Elem())
			}
			t := a.T
			if want == SReal && t.Sort == SInt {
				t = ToReal(t)
			}
			if t.Sort != want {
				specFail("apply: argument %d has sort %s, expected %s (pointer parameters take the pointed-to value)", i, t.Sort, want)
			}
			ats = append(ats, t)
			asorts = append(asorts, t.Sort)
			fname += "_" + mangleSort(t.Sort)
		}
		x.U.Declare(fname, rs, asorts...)
		return SV{T: App(fname, rs, ats...), Typ: sig.Results().At(0).Type()}
	case "addr":
		// addr(x): the pointer under which the local x was last handed to a callee (locals live in cells; a pointer to one is
		// materialised at the call that takes its address)
		id, ok := e.Args[0].(*EIdent)
		if !ok || env.fr == nil {
			specFail("addr(x): x must be a local variable of the function")
		}
		fi := x.info(env.fr.fn)
		a, isAlloc := fi.names[id.Name].(*ssa.Alloc)
		if !isAlloc {
			specFail("addr(%s): not an addressable local", id.Name)
		}
		val, has := env.fr.vals[a]
		if !has || val.Loc == nil {
			specFail("local %q is not allocated at this point", id.Name)
		}
		st := env.state()
		for i := len(st.mats) - 1; i >= 0; i-- {
			m := st.mats[i]
			if m.loc != nil && m.loc.kind == val.Loc.kind && m.loc.cell == val.Loc.cell && len(m.loc.path) == 0 {
				return SV{T: m.addr, Typ: a.Type()}
			}
		}
		if val.Loc.kind == locHeap && len(val.Loc.path) == 0 {
			return SV{T: val.Loc.addr, Typ: a.Type()}
		}
		// no pointer to it was handed out on this path: some pointer nothing is known about
		return SV{T: x.freshVar("addr_"+sanitize(id.Name), SInt), Typ: a.Type()}
	case "decoded_has", "decoded_real", "decoded_int", "decoded_bool", "decoded_str":
		// decoded_has(src, "Field") / decoded_real(src, "Field"): what utils.DecodeToStruct found in src for that field
		src := arg(0)
		lit, ok := e.Args[1].(*EStr)
		if ok && src.T.Sort != SIface && src.Typ != nil {
			// a value of a concrete type is handed to DecodeToStruct boxed in an interface value
			src = SV{T: x.TI.Box(src.Typ, src.T), Typ: nil}
		}
		if !ok || src.T.Sort != SIface {
			specFail("%s(src, \"Field\"): src must be an interface value and the field a string literal", e.Fn)
		}
		fs := map[string]Sort{"decoded_has": SBool, "decoded_real": SReal, "decoded_int": SInt, "decoded_bool": SBool, "decoded_str": SStr}[e.Fn]
		has, val := x.decodedTerms(src.T, lit.Val, fs)
		if e.Fn == "decoded_has" {
			return SV{T: has}
		}
		return SV{T: val}
	case "appptr":
		// appptr(f, v): the pointer a pure function-typed parameter f returns when called with (a pointer to) the value v
		f, a := arg(0), arg(1)
		name := "app_Int_" + mangleSort(a.T.Sort)
		x.U.Declare(name, SInt, SInt, a.T.Sort)
		var rt types.Type
		if f.Typ != nil {
			if sig, ok := types.Unalias(f.Typ).Underlying().(*types.Signature); ok && sig.Results().Len() == 1 {
				rt = sig.Results().At(0).Type()
			}
		}
		return SV{T: App(name, SInt, f.T, a.T), Typ: rt}
	case "calls":
		f := arg(0)
		if c, ok := env.state().ghost["calls:"+f.T.String()]; ok {
			return SV{T: c}
		}
		// not called so far on this path: register the counter so that a loop that calls it havocs it
		env.state().ghost["calls:"+f.T.String()] = IntLit(0)
		return SV{T: IntLit(0)}
	case "draw":
		f := arg(0)
		k := arg(1)
		x.U.Declare("draw_Real", SReal, SInt, SInt)
		return SV{T: App("draw_Real", SReal, f.T, k.T)}
	case "seen":
		if env.loop == nil || env.loop.rangeIt == nil || env.fr == nil {
			specFail("seen() outside a map-range loop invariant")
		}
		key := fmt.Sprintf("visited:%d:%s", env.fr.id, env.loop.rangeIt.Name())
		vis := env.state().ghost[key]
		if vis == nil {
			specFail("no iterator state for seen()")
		}
		return SV{T: Select(vis, arg(0).T)}
	case "unchanged":
		// unchanged(s): the elements of slice s are the same now as in the old state
		v := arg(0)
		if v.Typ != nil {
			if _, ok := types.Unalias(v.Typ).Underlying().(*types.Pointer); ok {
				v = x.derefSV(env, v)
			}
		}
		st, ok := types.Unalias(v.Typ).Underlying().(*types.Slice)
		if !ok {
			specFail("unchanged() needs a slice")
		}
		comp, cs := x.elemComp(st.Elem())
		now := env.heap(comp, cs)
		saved := env.inOld
		env.inOld = true
		was := env.heap(comp, cs)
		env.inOld = saved
		x.n++
		k := Var(fmt.Sprintf("q_u_%d", x.n), SInt)
		rng := And(Cmp(">=", k, SlOff(v.T)), Cmp("<", k, Arith("+", SlOff(v.T), SlLen(v.T))))
		return SV{T: Forall([]*Term{k}, Implies(rng, Eq(Select(Select(now, SlArr(v.T)), k), Select(Select(was, SlArr(v.T)), k))))}
	}
	// user-defined spec function
	pk := ""
	if env.pkg != nil {
		pk = env.pkg.Pkg.Path()
	}
	sf := x.DB.LookupSpec(pk, e.Fn)
	if sf == nil {
		specFail("unknown function %q", e.Fn)
	}
	if len(e.Args) != len(sf.Params) {
		specFail("%s: expected %d arguments, got %d", e.Fn, len(sf.Params), len(e.Args))
	}
	force := env.unfoldNext
	env.unfoldNext = false
	var args []SV
	for i := range e.Args {
		args = append(args, arg(i))
	}
	env.unfoldNext = force
	return x.applySpec(env, sf, args)
}

func (x *Exec) mathFn(name string, a *Term) *Term {
	sym := "math_" + name
	if _, ok := x.U.funcs[sym]; !ok {
		x.U.Declare(sym, SReal, SReal)
		v := Var("mx", SReal)
		w := Var("my", SReal)
		switch name {
		case "exp":
			x.U.AddAxiom(sym, Eq(App(sym, SReal, RealLitStr("0")), RealLitStr("1")))
			x.U.AddAxiom(sym, Forall([]*Term{v}, Cmp(">", App(sym, SReal, v), RealLitStr("0")), []*Term{App(sym, SReal, v)}))
			x.U.AddAxiom(sym, Forall([]*Term{v, w}, Implies(Cmp("<", v, w), Cmp("<", App(sym, SReal, v), App(sym, SReal, w))), []*Term{App(sym, SReal, v), App(sym, SReal, w)}))
		case "round":
			// monotone (weakly), within 1/2
			x.U.AddAxiom(sym, Forall([]*Term{v, w}, Implies(Cmp("<=", v, w), Cmp("<=", App(sym, SReal, v), App(sym, SReal, w))), []*Term{App(sym, SReal, v), App(sym, SReal, w)}))
		}
	}
	return App(sym, SReal, a)
}

// ---------------------------------------------------------------------------
// spec functions

type specInfo struct {
	recursive bool
	comps     []string
	compSorts []Sort
	sym       string
	paramT    []types.Type
	paramS    []Sort
	retT      types.Type
	retS      Sort
	probed    bool
	probedDone bool
}

var specInfos = map[*SpecFunc]*specInfo{}

func (x *Exec) specCalls(ex Expr, f func(name string)) {
	switch e := ex.(type) {
	case *EUnary:
		x.specCalls(e.X, f)
	case *EBinary:
		x.specCalls(e.X, f)
		x.specCalls(e.Y, f)
	case *ECond:
		x.specCalls(e.C, f)
		x.specCalls(e.A, f)
		x.specCalls(e.B, f)
	case *EField:
		x.specCalls(e.X, f)
	case *EIndex:
		x.specCalls(e.X, f)
		x.specCalls(e.I, f)
	case *ESlice:
		x.specCalls(e.X, f)
		if e.Lo != nil {
			x.specCalls(e.Lo, f)
		}
		if e.Hi != nil {
			x.specCalls(e.Hi, f)
		}
	case *ECall:
		f(e.Fn)
		for _, a := range e.Args {
			x.specCalls(a, f)
		}
	case *EAssert:
		x.specCalls(e.X, f)
	case *EOld:
		x.specCalls(e.X, f)
	case *EQuant:
		x.specCalls(e.Body, f)
	case *ELet:
		x.specCalls(e.Val, f)
		x.specCalls(e.Body, f)
	}
}

func (x *Exec) specInfoOf(env *Env, sf *SpecFunc) *specInfo {
	if si, ok := specInfos[sf]; ok {
		return si
	}
	si := &specInfo{}
	specInfos[sf] = si
	// recursion: does the body reach sf again?
	if sf.Body != nil {
		seen := map[*SpecFunc]bool{}
		var visit func(s *SpecFunc)
		visit = func(s *SpecFunc) {
			if s.Body == nil {
				return
			}
			x.specCalls(s.Body, func(name string) {
				t := x.DB.LookupSpec(s.Pkg, name)
				if t == nil {
					return
				}
				if t == sf {
					si.recursive = true
				}
				if !seen[t] {
					seen[t] = true
					visit(t)
				}
			})
		}
		visit(sf)
	}
	penv := &Env{x: x, pkg: x.pkgByPath[sf.Pkg]}
	for _, p := range sf.Params {
		t, s := x.resolveType(penv, p.T)
		if p.T.Text == "int" || p.T.Text == "real" || p.T.Text == "bool" {
			t = nil
		}
		si.paramT = append(si.paramT, t)
		si.paramS = append(si.paramS, s)
	}
	rt, rs := x.resolveType(penv, sf.Ret)
	if sf.Ret.Text == "int" || sf.Ret.Text == "real" || sf.Ret.Text == "bool" {
		rt = nil
	}
	si.retT, si.retS = rt, rs
	si.sym = "sf_" + sanitize(shortPkgName(sf.Pkg)) + "_" + sf.Name
	return si
}

// probeSpec discovers which heap components the (recursive or opaque) spec function reads.
func (x *Exec) probeSpec(env *Env, sf *SpecFunc, si *specInfo) {
	if si.probed {
		return
	}
	si.probed = true
	if sf.Body == nil {
		si.probedDone = true
		return
	}
	pe := &Env{x: x, st: env.st, old: env.old, vars: map[string]SV{}, pkg: x.pkgByPath[sf.Pkg], allocOld: env.allocOld, reads: map[string]Sort{}, fuelSet: true, fuel: 0}
	for i, p := range sf.Params {
		pe.vars[p.Name] = SV{T: Var("probe_"+p.Name, si.paramS[i]), Typ: si.paramT[i]}
	}
	x.eval(pe, sf.Body)
	for c := range pe.reads {
		si.comps = append(si.comps, c)
	}
	sort.Strings(si.comps)
	for _, c := range si.comps {
		si.compSorts = append(si.compSorts, pe.reads[c])
	}
	si.probedDone = true
	// nested recursive spec functions contribute their components through their own applications
}

// revealAxioms: quantified defining equations (over the value parameters, for the current heap) of opaque spec functions.
func (x *Exec) revealAxioms(env *Env, names []string) []*Term {
	var out []*Term
	pk := ""
	if env.pkg != nil {
		pk = env.pkg.Pkg.Path()
	}
	for _, name := range names {
		sf := x.DB.LookupSpec(pk, name)
		if sf == nil || sf.Body == nil {
			specFail("reveal: unknown spec function %q", name)
		}
		si := x.specInfoOf(env, sf)
		var args []SV
		var bvs []*Term
		for i, p := range sf.Params {
			x.n++
			bv := Var(fmt.Sprintf("r_%s_%d", sanitize(p.Name), x.n), si.paramS[i])
			bvs = append(bvs, bv)
			args = append(args, SV{T: bv, Typ: si.paramT[i]})
		}
		nb := len(env.bound)
		env.bound = append(env.bound, bvs...)
		env.unfoldNext = true
		app := x.applySpec(env, sf, args)
		env.bound = env.bound[:nb]
		// applySpec put the (closed) instance into env.side; move it out
		side := env.takeSide()
		out = append(out, side...)
		_ = app
	}
	return out
}

func (x *Exec) applySpec(env *Env, sf *SpecFunc, args []SV) SV {
	si := x.specInfoOf(env, sf)
	for i := range args {
		if args[i].T.Sort != si.paramS[i] {
			if si.paramS[i] == SReal && args[i].T.Sort == SInt {
				args[i].T = ToReal(args[i].T)
			} else {
				specFail("%s: argument %d has sort %s, expected %s", sf.Name, i+1, args[i].T.Sort, si.paramS[i])
			}
		}
	}
	evalBody := func(e2 *Env) SV {
		saved := map[string]*SV{}
		for _, p := range sf.Params {
			if o, ok := e2.vars[p.Name]; ok {
				oo := o
				saved[p.Name] = &oo
			} else {
				saved[p.Name] = nil
			}
		}
		for i, p := range sf.Params {
			typ := si.paramT[i]
			if typ == nil && args[i].Typ != nil && x.TI.SortOf(args[i].Typ) == si.paramS[i] && si.paramS[i] != SInt && si.paramS[i] != SReal && si.paramS[i] != SBool {
				typ = args[i].Typ
			}
			e2.vars[p.Name] = SV{T: args[i].T, Typ: typ}
		}
		savedPkg := e2.pkg
		if p := x.pkgByPath[sf.Pkg]; p != nil {
			e2.pkg = p
		}
		r := x.eval(e2, sf.Body)
		e2.pkg = savedPkg
		for n, o := range saved {
			if o == nil {
				delete(e2.vars, n)
			} else {
				e2.vars[n] = *o
			}
		}
		if r.T.Sort != si.retS {
			if si.retS == SReal && r.T.Sort == SInt {
				r.T = ToReal(r.T)
			} else {
				specFail("%s: body has sort %s, declared %s", sf.Name, r.T.Sort, si.retS)
			}
		}
		return SV{T: r.T, Typ: si.retT}
	}
	if sf.Body != nil && !si.recursive && !sf.Opaque {
		return evalBody(env)
	}
	// uninterpreted application (+ definitional instance while fuel lasts)
	if env.reads != nil && !si.probedDone {
		// inside the probe of this (or an enclosing) recursive definition: only the heap reads matter
		return SV{T: Var("probe_app_"+sf.Name, si.retS), Typ: si.retT}
	}
	x.probeSpec(env, sf, si)
	var ats []*Term
	asorts := append([]Sort{}, si.paramS...)
	for _, a := range args {
		ats = append(ats, a.T)
	}
	for i, c := range si.comps {
		ats = append(ats, env.heap(c, si.compSorts[i]))
		asorts = append(asorts, si.compSorts[i])
	}
	x.U.Declare(si.sym, si.retS, asorts...)
	app := App(si.sym, si.retS, ats...)
	x.specFrame(env, si, args, ats, app)
	force := env.unfoldNext
	env.unfoldNext = false
	loops := false
	if si.recursive && len(env.bound) > 0 {
		for i, ch := range changingPositions(sf) {
			if ch && i < len(args) && bareBound(args[i].T, env.bound) {
				loops = true
			}
		}
	}
	if sf.Body != nil && !loops && ((env.getFuel() > 0 && !sf.Opaque) || force) {
		f := env.getFuel()
		env.fuel, env.fuelSet = f-1, true
		body := evalBody(env)
		env.fuel = f
		inst := Eq(app, body.T)
		// close over bound variables occurring in the instance
		var bvs []*Term
		txt := inst.String()
		for _, b := range env.bound {
			if strings.Contains(txt, b.Op) {
				bvs = append(bvs, b)
			}
		}
		if len(bvs) > 0 {
			inst = Forall(bvs, inst, []*Term{app})
		}
		env.side = append(env.side, inst)
	}
	return SV{T: app, Typ: si.retT}
}


// entryRooted: the term denotes a value of the entry state - a parameter, something read out of an entry heap component (at any
// index), or built from such by projections and constructors.  Such a value is well-formed w.r.t. the entry allocation bound
// (the entry well-formedness assumption), so everything reachable from it in the entry heap lies below that bound.
func entryRooted(t *Term) bool {
	switch t.Kind {
	case kVar:
		return strings.HasPrefix(t.Op, "p_") || (strings.HasSuffix(t.Op, "_0") && isHeapComp(t.Op))
	case kApp:
		switch {
		case t.Op == "select":
			return entryRooted(t.Args[0])
		case t.Op == "store" || strings.HasPrefix(t.Op, "zerorow_"):
			return false
		case t.Op == "ite":
			return entryRooted(t.Args[1]) && entryRooted(t.Args[2])
		case t.Op == "sidx":
			return true
		}
		for _, a := range t.Args {
			if !entryRooted(a) {
				return false
			}
		}
		return true
	}
	return true // literals
}

func hasRefs(t types.Type, depth int) bool {
	if t == nil {
		return true
	}
	switch u := types.Unalias(t).Underlying().(type) {
	case *types.Basic:
		return false
	case *types.Struct:
		if depth > 6 {
			return true
		}
		for i := 0; i < u.NumFields(); i++ {
			if hasRefs(u.Field(i).Type(), depth+1) {
				return true
			}
		}
		return false
	}
	return true
}

// specFrame: the frame rule for heap-reading uninterpreted (recursive / opaque / abstract) spec functions.
// If every reference-carrying argument is an entry value and every heap component the function reads agrees with the entry heap
// on all objects that existed at entry, the application equals the same application over the entry heap: by induction on the
// evaluation, every object it reads is reachable from the arguments in the entry heap and hence older than the entry bound.
func (x *Exec) specFrame(env *Env, si *specInfo, args []SV, ats []*Term, app *Term) {
	if len(si.comps) == 0 || x.vc == nil || x.vc.entry == nil || env.reads != nil {
		return
	}
	n := len(args)
	var ante []*Term
	ats0 := append([]*Term{}, ats[:n]...)
	differs := false
	for i, c := range si.comps {
		e := x.heapGet(x.vc.entry, c, si.compSorts[i])
		ats0 = append(ats0, e)
		if e.String() != ats[n+i].String() {
			differs = true
			a := Var("fa", SInt)
			ante = append(ante, Forall([]*Term{a}, Implies(And(Cmp("<=", IntLit(0), a), Cmp("<", a, x.vc.allocBase)),
				Eq(Select(ats[n+i], a), Select(e, a))), []*Term{Select(ats[n+i], a)}))
		}
	}
	if !differs {
		return
	}
	for i, a := range args {
		typ := si.paramT[i]
		if typ == nil {
			typ = a.Typ
		}
		if si.paramS[i] == SReal || si.paramS[i] == SBool || si.paramS[i] == SStr {
			continue
		}
		if typ != nil && !hasRefs(typ, 0) {
			continue
		}
		if !entryRooted(a.T) {
			return
		}
	}
	inst := Implies(And(ante...), Eq(app, App(si.sym, si.retS, ats0...)))
	var bvs []*Term
	txt := inst.String()
	for _, b := range env.bound {
		if strings.Contains(txt, b.Op) {
			bvs = append(bvs, b)
		}
	}
	if len(bvs) > 0 {
		inst = Forall(bvs, inst, []*Term{app})
	}
	env.side = append(env.side, inst)
}


// closureAxiom: a function value without captured variables whose contract says it never panics and needs nothing is a total
// function of its arguments; if its postconditions read no heap (pointer parameters only through their own fields), they
// characterise app(f, args) for all arguments.  The contract itself is verified where the function is.
func (x *Exec) closureAxiom(fn *ssa.Function, sym string) {
	if len(x.U.axioms[sym]) > 0 || x.vc == nil || x.vc.entry == nil {
		return
	}
	spec := x.DB.Funcs[funcKey(fn)]
	if spec == nil || !spec.NoPanic || len(spec.Requires) > 0 || len(spec.Ensures) == 0 || spec.Trusted || fn.Signature.Results().Len() != 1 {
		return
	}
	if len(x.info(fn).loops) > 0 || len(fn.FreeVars) > 0 {
		return
	}
	defer func() {
		if r := recover(); r != nil {
			x.note("no application axiom for %s: %v", shortFuncName(fn), r)
		}
	}()
	rs := x.TI.SortOf(fn.Signature.Results().At(0).Type())
	fname := "app_" + mangleSort(rs)
	fv := App(sym, SInt)
	ats := []*Term{fv}
	asorts := []Sort{SInt}
	env := &Env{x: x, st: x.vc.entry, old: x.vc.entry, vars: map[string]SV{}, pkg: fn.Package(), allocOld: x.vc.allocBase, touched: map[string]Sort{}}
	var bvs []*Term
	for i, p := range fn.Params {
		pt := p.Type()
		if pp, ok := types.Unalias(pt).Underlying().(*types.Pointer); ok {
			pt = pp.Elem()
		}
		srt := x.TI.SortOf(pt)
		b := Var(fmt.Sprintf("cx%d_%s", i, sanitize(p.Name())), srt)
		bvs = append(bvs, b)
		ats = append(ats, b)
		asorts = append(asorts, srt)
		fname += "_" + mangleSort(srt)
		env.vars[p.Name()] = SV{T: b, Typ: pt, Pointee: pt != p.Type()}
	}
	env.bound = append(env.bound, bvs...)
	x.U.Declare(fname, rs, asorts...)
	app := App(fname, rs, ats...)
	env.vars["result"] = SV{T: app, Typ: fn.Signature.Results().At(0).Type()}
	var body []*Term
	for _, c := range spec.Ensures {
		body = append(body, x.evalBool(env, c.E))
	}
	if len(env.touched) > 0 {
		x.note("no application axiom for %s: its postconditions read the heap", shortFuncName(fn))
		return
	}
	for _, sd := range env.takeSide() {
		x.U.AddAxiom(sym, sd)
	}
	x.U.AddAxiom(sym, Forall(bvs, And(body...), []*Term{app}))
}


// changingPositions: parameter positions whose argument differs from the parameter itself in some recursive call of the body.
func changingPositions(sf *SpecFunc) []bool {
	out := make([]bool, len(sf.Params))
	var walk func(e Expr)
	walk = func(e Expr) {
		switch e := e.(type) {
		case *EUnary:
			walk(e.X)
		case *EBinary:
			walk(e.X)
			walk(e.Y)
		case *ECond:
			walk(e.C)
			walk(e.A)
			walk(e.B)
		case *EField:
			walk(e.X)
		case *EIndex:
			walk(e.X)
			walk(e.I)
		case *ESlice:
			walk(e.X)
			if e.Lo != nil {
				walk(e.Lo)
			}
			if e.Hi != nil {
				walk(e.Hi)
			}
		case *ECall:
			if e.Fn == sf.Name && len(e.Args) == len(sf.Params) {
				for i, a := range e.Args {
					if id, ok := a.(*EIdent); !ok || id.Name != sf.Params[i].Name {
						out[i] = true
					}
				}
			}
			for _, a := range e.Args {
				walk(a)
			}
		case *EAssert:
			walk(e.X)
		case *EOld:
			walk(e.X)
		case *EQuant:
			walk(e.Body)
		case *ELet:
			walk(e.Val)
			walk(e.Body)
		}
	}
	if sf.Body != nil {
		walk(sf.Body)
	}
	return out
}

// bareBound: a bound variable occurs in t outside every uninterpreted function (i.e. only under arithmetic / ite): a
// quantified unfolding triggered on such an argument re-triggers itself on the recursive call (matching loop).
func bareBound(t *Term, bound []*Term) bool {
	switch t.Kind {
	case kVar:
		for _, b := range bound {
			if b.Op == t.Op {
				return true
			}
		}
		return false
	case kApp:
		switch t.Op {
		case "+":
			// "variable + positive literal": the unfolding mentions the function at the variable itself (or a smaller offset), which
			// the trigger (the same offset shape) does not match again
			if len(t.Args) == 2 && t.Args[0].Kind == kVar && t.Args[1].Kind == kLit && !strings.HasPrefix(t.Args[1].Op, "-") && !strings.HasPrefix(t.Args[1].Op, "(-") {
				return false
			}
			fallthrough
		case "-", "*", "ite", "to_real":
			for _, a := range t.Args {
				if bareBound(a, bound) {
					return true
				}
			}
		}
	}
	return false
}
