package main

// Per-function static information: natural loops, cell allocs, local names.

import (
	"go/ast"
	"go/token"
	"go/types"
	"sort"

	"golang.org/x/tools/go/ssa"
)

type Loop struct {
	header   *ssa.BasicBlock
	blocks   map[*ssa.BasicBlock]bool
	ordinal  int // 1-based, source order
	rangeIdx *ssa.Phi
	rangeLen ssa.Value
	rangeIt  *ssa.Range // map range iterator
	rangeCell *ssa.Alloc // naive form: the hidden index lives in a cell
	pos      token.Pos
}

type FuncInfo struct {
	fn       *ssa.Function
	loops    map[*ssa.BasicBlock]*Loop
	loopList []*Loop
	isCell   map[*ssa.Alloc]bool
	names    map[string]ssa.Value // Alloc comments, params, free vars
	allocsByName map[string][]*ssa.Alloc
	hasLoops bool
	ninstr   int
}

func (x *Exec) info(fn *ssa.Function) *FuncInfo {
	if fi, ok := x.finfo[fn]; ok {
		return fi
	}
	fi := &FuncInfo{fn: fn, loops: map[*ssa.BasicBlock]*Loop{}, isCell: map[*ssa.Alloc]bool{}, names: map[string]ssa.Value{}, allocsByName: map[string][]*ssa.Alloc{}}
	x.finfo[fn] = fi
	for _, p := range fn.Params {
		fi.names[p.Name()] = p
	}
	for _, p := range fn.FreeVars {
		fi.names[p.Name()] = p
	}
	for _, b := range fn.Blocks {
		for _, ins := range b.Instrs {
			fi.ninstr++
			if a, ok := ins.(*ssa.Alloc); ok {
				fi.isCell[a] = allocIsCell(a)
				if a.Comment != "" {
					fi.allocsByName[a.Comment] = append(fi.allocsByName[a.Comment], a)
					if _, dup := fi.names[a.Comment]; !dup {
						fi.names[a.Comment] = a
					}
				}
			}
		}
	}
	// natural loops
	for _, b := range fn.Blocks {
		for _, s := range b.Succs {
			if s.Dominates(b) { // back edge b -> s
				lp := fi.loops[s]
				if lp == nil {
					lp = &Loop{header: s, blocks: map[*ssa.BasicBlock]bool{s: true}}
					fi.loops[s] = lp
					fi.loopList = append(fi.loopList, lp)
				}
				// collect body: nodes reaching b without passing s
				stack := []*ssa.BasicBlock{b}
				for len(stack) > 0 {
					n := stack[len(stack)-1]
					stack = stack[:len(stack)-1]
					if lp.blocks[n] {
						continue
					}
					lp.blocks[n] = true
					stack = append(stack, n.Preds...)
				}
			}
		}
	}
	sort.Slice(fi.loopList, func(i, j int) bool { return fi.loopList[i].header.Index < fi.loopList[j].header.Index })
	// source-order ordinals: match with for/range statements of the syntax when counts agree
	var stmts []token.Pos
	if syn := fn.Syntax(); syn != nil {
		var body ast.Node
		switch n := syn.(type) {
		case *ast.FuncDecl:
			body = n.Body
		case *ast.FuncLit:
			body = n.Body
		}
		if body != nil {
			ast.Inspect(body, func(n ast.Node) bool {
				switch s := n.(type) {
				case *ast.FuncLit:
					return false
				case *ast.ForStmt:
					stmts = append(stmts, s.Pos())
				case *ast.RangeStmt:
					stmts = append(stmts, s.Pos())
				}
				return true
			})
		}
	}
	for i, lp := range fi.loopList {
		lp.ordinal = i + 1
		if len(stmts) == len(fi.loopList) {
			lp.pos = stmts[i]
		}
		// range-index loop?
		for _, ins := range lp.header.Instrs {
			if phi, ok := ins.(*ssa.Phi); ok && phi.Comment == "rangeindex" {
				lp.rangeIdx = phi
			}
			if ld, ok := ins.(*ssa.UnOp); ok && ld.Op == token.MUL {
				if a, ok := ld.X.(*ssa.Alloc); ok && a.Comment == "rangeindex" && lp.rangeCell == nil {
					lp.rangeCell = a
				}
			}
			if nx, ok := ins.(*ssa.Next); ok {
				if r, ok := nx.Iter.(*ssa.Range); ok {
					lp.rangeIt = r
				}
			}
		}
		if lp.rangeIdx != nil || lp.rangeCell != nil {
			if iff, ok := lp.header.Instrs[len(lp.header.Instrs)-1].(*ssa.If); ok {
				if bo, ok := iff.Cond.(*ssa.BinOp); ok && bo.Op == token.LSS {
					lp.rangeLen = bo.Y
				}
			}
		}
	}
	fi.hasLoops = len(fi.loopList) > 0
	return fi
}

// allocIsCell: the address never escapes load/store/field-address chains.
func allocIsCell(a *ssa.Alloc) bool {
	if _, isArr := types.Unalias(deref(a.Type())).Underlying().(*types.Array); isArr {
		return false
	}
	var ok func(v ssa.Value) bool
	ok = func(v ssa.Value) bool {
		refs := v.Referrers()
		if refs == nil {
			return false
		}
		for _, r := range *refs {
			switch r := r.(type) {
			case *ssa.UnOp:
				if r.Op != token.MUL {
					return false
				}
			case *ssa.Store:
				if r.Val == v {
					return false
				}
			case *ssa.FieldAddr:
				if !ok(r) {
					return false
				}
			case *ssa.DebugRef:
			default:
				return false
			}
		}
		return true
	}
	return ok(a)
}
