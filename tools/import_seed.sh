#!/bin/bash
# import_seed.sh <Cxx> <A|B> [basedir] [suffix]: validate an agent-written seeded change in its scratch worktree /tmp/seed/<Cxx> and keep it
# as /verif/seeded/<Cxx>-<X>/ (patch.diff, demo_test.go, meta.json).  Validation: compiles, whole suite passes,
# the demonstration fails on the changed code and passes on the unchanged code.
export GOFLAGS=-mod=mod GOPROXY=off GOSUMDB=off GOTOOLCHAIN=local
P=$1; X=$2; BASE=${3:-/tmp/seed}; SUF=${4:-$X}; W=$BASE/$P; O=$W/out
[ -f $O/patch_$X.diff ] && [ -f $O/demo_${X}_test.go ] && [ -f $O/meta_$X.json ] || { echo "$P-$X: incomplete deliverable"; exit 1; }
dir=$(python3 -c "import json;print(json.load(open('$O/meta_$X.json'))['demo_package_dir'].strip('/'))")
[ -d "$W/$dir" ] || { echo "$P-$X: demo dir $dir missing"; exit 1; }
git -C $W checkout -q -- lib; git -C $W clean -fdq lib
git -C $W apply --whitespace=nowarn $O/patch_$X.diff || { echo "$P-$X: patch does not apply"; exit 1; }
(cd $W/lib && go build ./... ) >/dev/null 2>&1 || { echo "$P-$X: does not compile"; git -C $W checkout -q -- lib; exit 1; }
suite=$(cd $W/lib && go test -vet=off -count=1 ./... 2>&1); echo "$suite" | grep -q "^FAIL\|^---\s*FAIL" && { echo "$P-$X: test suite fails with the change"; git -C $W checkout -q -- lib; exit 1; }
cp $O/demo_${X}_test.go $W/$dir/zz_demo_${X}_test.go
chg=$(cd $W/$dir && go test -vet=off -count=1 -timeout 300s -run 'Demo|demo' . 2>&1 | tail -3)
rm -f $W/$dir/zz_demo_${X}_test.go
git -C $W checkout -q -- lib
cp $O/demo_${X}_test.go $W/$dir/zz_demo_${X}_test.go
org=$(cd $W/$dir && go test -vet=off -count=1 -timeout 300s -run 'Demo|demo' . 2>&1 | tail -3)
rm -f $W/$dir/zz_demo_${X}_test.go
echo "$chg" | grep -q "^FAIL\|FAIL" || { echo "$P-$X: demo does not fail on the changed code: $chg"; exit 1; }
echo "$org" | grep -q "^ok" || { echo "$P-$X: demo does not pass on the unchanged code: $org"; exit 1; }
D=/verif/seeded/$P-$SUF; mkdir -p $D
cp $O/patch_$X.diff $D/patch.diff; cp $O/demo_${X}_test.go $D/demo_test.go
python3 - <<PY
import json
m=json.load(open('$O/meta_$X.json'))
m['property']='$P'
m['validated']={'compiles':True,'suite_passes':True,'demo_fails_on_changed':True,'demo_passes_on_unchanged':True}
json.dump(m,open('$D/meta.json','w'),indent=1)
PY
echo "$P-$SUF: imported"
