#!/bin/bash
# Must-fail corpus: applies each mutant to /repo's working tree, runs the property's check, restores the tree.
# Usage: tools/selftest.sh [id-pattern]
export GOFLAGS=-mod=mod GOPROXY=off GOSUMDB=off GOTOOLCHAIN=local
cd "$(dirname "$0")/.."
pat="${1:-.}"
caught=0; missed=0
if [ -n "$(git -C /repo status --porcelain --untracked-files=no)" ]; then echo "refusing: /repo has uncommitted changes"; exit 2; fi
while IFS=$'\t' read -r id prop file expr; do
  case "$id" in \#*|"") continue;; esac
  echo "$id" | grep -qE "$pat" || continue
  sed -i "$expr" "/repo/$file"
  if git -C /repo diff --quiet -- "$file"; then echo "$id: mutant did not apply"; missed=$((missed+1)); continue; fi
  if ! (cd /repo/lib && go build ./... >/dev/null 2>&1); then echo "$id: mutant does not compile"; git -C /repo checkout -- "$file"; missed=$((missed+1)); continue; fi
  out=$(GOCV_SCRATCH=/tmp/gocv-selftest timeout 900 ./check "$prop" 2>&1); rc=$?
  git -C /repo checkout -- "$file"
  if [ $rc -eq 1 ] && echo "$out" | grep -q "^VIOLATION property=$prop"; then caught=$((caught+1)); echo "$id $prop caught: $(echo "$out" | grep -m1 '^VIOLATION' | sed 's/.*obligation=//' | cut -c1-110)"
  else missed=$((missed+1)); echo "$id $prop MISSED (exit $rc): $(echo "$out" | tail -1 | cut -c1-120)"; fi
done < selftest/mutants.tsv
rm -rf /tmp/gocv-selftest
echo "selftest: caught=$caught missed=$missed"
[ $missed -eq 0 ]
