#!/bin/bash
# runs every claimed check (quick tier, or "$1" = --thorough) one after the other and prints one line per property
cd "$(dirname "$0")/.."
tier="$1"
rc_all=0
for p in $(python3 -c "import json; print(' '.join(c['property_id'] for c in json.load(open('MANIFEST.json'))['checks']))"); do
  s=$(date +%s)
  out=$(./check $p $tier 2>&1); rc=$?
  e=$(date +%s)
  echo "$p rc=$rc $((e-s))s $(echo "$out" | tail -1 | cut -c1-220)"
  echo "$out" | grep -E "^(VIOLATION|KNOWN-FINDING)" | cut -c1-260
  [ $rc -ne 0 ] && rc_all=1
done
exit $rc_all
