# Per-property claims (executed by mkmanifest.py).  Keep the text honest: P = proved for all inputs, what is not decided is said.

claim("C14",
  "Proved for all inputs (unbounded): the four update rules equal the documented formulas (closures under contract); both coefficient managers validate exactly the documented parameter ranges (panics_iff), start at minValue resp. maxValue and continue while r<maxValue resp. r>minValue; "
  "IdealCoefficientSatisfactionLevels.Next places every criterion at min+r*range (gain) / max-r*range (cost) with r the value before the update and then applies the manager's update; Initialize takes the declared range when present and otherwise the observed range over all known alternatives (considered and not); "
  "CriteriaValuesRange prefers the declared range; the threshold-list source validates and iterates its list. Lemmas: each rule is strictly monotone inside its domain and decreases a stated integer measure (finite series). "
  "Not decided: that main.go wires increasing sources to aspect elimination and decreasing ones to satisfaction (configuration, outside /repo/lib); behaviour in IEEE arithmetic when a level lands exactly on a bound.",
  "The link between a manager and its update closure is through a function-valued field (assumed: interface method contract CoefficientManager.UpdateValue is an uninterpreted function of the manager).")

claim("C16",
  "Proved for all inputs (unbounded, loop invariants): reverseCriteriaForEachAlternative gives every known alternative (considered and not) value max+min-v on each selected criterion, leaves every other key of every alternative's value map unchanged, builds fresh maps and a fresh slice; "
  "getCriteriaToReverse takes each criterion's range from the declared valuesRange if present, otherwise the range observed over all current alternatives; UpdateAlternatives/FetchAlternative re-associate by id (first match) and keep order; "
  "PreferenceReversal.Apply: criteria list and method parameters are the same objects, considered/not-considered keep ids and order and are exactly 'mirrored by the report' (the report's ids and ranges are the ones applied); the split takes Left = first clamp(floor(n*ratio)) criteria of the ordering. "
  "Lemmas: mirroring maps [min,max] onto itself, swaps min and max, and is an involution. "
  "Not decided: that alternativesValues in the report equal the assigned values (report shape only); IEEE last-bit effects of max+min-v.",
  "Requires distinct criterion ids and distinct alternative ids (established by request validation, not re-proved here). The ordering resolver is used through its interface contract (permutation of the criteria); weakestByProbability's permutation property is a trusted contract.")

claim("C17",
  "Proved for all inputs: the two ratio functions return value resp. multiplier*exp(alpha*queryNumber)-multiplier (exp uninterpreted); blurCriteriaValues (two nested loops, proved with invariants) gives every alternative a fresh value map over exactly the criteria, keeps ids and order, and each new value is BoundValue(w) for some w with |w - v| <= |f*v| (stated as the interval between the boundings of v-|f v| and v+|f v|, which is equivalent because bounding is monotone); "
  "BoundValue = raise to 0 if negatives are disallowed, then clamp into the range scaled about its centre when allowedValuesRangeScaling>0 (each helper has its formula as postcondition; scaling 0 is rejected); "
  "Fatigue.Apply hands criteria and method parameters on as the same objects, keeps the considered/not-considered split, and its report aliases exactly the slices handed on. Lemma: |blurred-v| <= |f v| for u in [0,1) and both signs, and f=0 leaves v unchanged. "
  "Not decided: that the sign takes both directions over seeds and the distribution of u (properties of math/rand); which stream position feeds which value.",
  "The value and sign generators are function-typed parameters assumed to return values in [0,1) (contract of utils.RandomBasedSeedValueGenerator / math/rand); parseFatigueFuncParams is a trusted contract (decodes into the fresh object BlankParams returned).")
