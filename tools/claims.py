# Per-property claims (executed by mkmanifest.py).  Keep the text honest: P = proved for all inputs, what is not decided is said.

claim("C14",
  "Proved for all inputs (unbounded): the four update rules equal the documented formulas (closures under contract); both coefficient managers validate exactly the documented parameter ranges (panics_iff), start at minValue resp. maxValue and continue while r<maxValue resp. r>minValue; "
  "IdealCoefficientSatisfactionLevels.Next places every criterion at min+r*range (gain) / max-r*range (cost) with r the value before the update and then applies the manager's update; Initialize takes the declared range when present and otherwise the observed range over all known alternatives (considered and not); "
  "CriteriaValuesRange prefers the declared range; the threshold-list source validates and iterates its list. Lemmas: each rule is strictly monotone inside its domain and decreases a stated integer measure (finite series). "
  "Not decided: that main.go wires increasing sources to aspect elimination and decreasing ones to satisfaction (configuration, outside /repo/lib); behaviour in IEEE arithmetic when a level lands exactly on a bound.",
  "The link between a manager and its update closure is through a function-valued field (assumed: interface method contract CoefficientManager.UpdateValue is an uninterpreted function of the manager).")
