#!/usr/bin/env python3
"""addtag.py <contract file> <function> <tag...>: add property tags to one function contract."""
import sys,re
path,fn,tags=sys.argv[1],sys.argv[2],sys.argv[3:]
lines=open(path).read().split('\n')
for i,l in enumerate(lines):
    if l.rstrip()=='//@ func '+fn:
        for j in range(i+1,min(i+6,len(lines))):
            if lines[j].startswith('//@   property'):
                have=lines[j].split()[2:]
                lines[j]='//@   property '+' '.join(have+[t for t in tags if t not in have])
                open(path,'w').write('\n'.join(lines)); sys.exit(0)
print('not found:',path,fn); sys.exit(1)
