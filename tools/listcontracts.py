#!/usr/bin/env python3
"""listcontracts.py Cxx [Cyy...]: print the contract clauses tagged with the given properties (developer aid)."""
import re,glob,sys
want=set(sys.argv[1:])
for f in sorted(glob.glob('/repo/lib/**/zz_contracts_verif.go',recursive=True)):
    txt=open(f).read().split('\n')
    cur=None;buf=[];props=set()
    def flush():
        if cur and props&want:
            print('##',f.split('lib/')[1].rsplit('/',1)[0],cur, sorted(props&want))
            for b in buf: print('   ',b[:260])
    for l in txt:
        if l.startswith('//@ func '):
            flush(); cur=l[9:]; buf=[]; props=set()
        elif l.startswith('//@ ') and not l.startswith('//@   '):
            flush(); cur=None; buf=[]; props=set()
            if l.startswith('//@ lemma') and any(w in l.split(']')[0] for w in want): print('##',l[4:200])
        elif cur and l.startswith('//@'):
            m=re.match(r'//@\s+property (.*)',l)
            if m: props=set(m.group(1).split())
            elif re.match(r'//@\s+(ensures|requires|panics|nopanic|assigns|trusted|refines)',l): buf.append(l[4:].strip())
    flush()
