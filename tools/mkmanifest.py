#!/usr/bin/env python3
"""Regenerates /verif/MANIFEST.json from the table below (kept valid against the schema)."""
import json, subprocess, sys, os
ROOT = os.path.dirname(os.path.dirname(os.path.abspath(__file__)))
props = [json.loads(l) for l in open(os.path.join(ROOT, 'properties.jsonl'))]
ids = [p['id'] for p in props]

COMMON_NOTE = ("Trusted base: the gocv VC generator and its semantic model of Go (DESIGN.md sections 3 and 9); go/ssa v0.29.0; z3 5.1.0 / z3 4.8.12 / cvc5 1.0; "
  "float64 treated as mathematical reals and int as mathematical integers; partial correctness (panicking executions are outside a postcondition unless the contract has panics_iff/nopanic); "
  "external functions (fmt, math, sort, strings, strconv, math/rand, mapstructure) only through the assumed contracts listed in the evidence file; "
  "callees without a contract are inlined when small and loop-free, otherwise opaque under the default frame contract. ")

# property -> (claimed text, extra note)  -- only properties listed here are claimed
CLAIMS = {}
NA = {}

def claim(pid, text, note="", design="DESIGN.md section 6 " ):
    CLAIMS[pid] = (text, note, design + pid)

exec(open(os.path.join(ROOT, 'tools', 'claims.py')).read())
for _k in list(CLAIMS):
    CLAIMS[_k] = (CLAIMS[_k][0] + COMMON_ADDENDUM, CLAIMS[_k][1], CLAIMS[_k][2])

def source_commits():
    try:
        out = subprocess.run(['git', '-C', '/repo', 'log', '--format=%H %s'], capture_output=True, text=True).stdout
        return [l.split()[0] for l in out.splitlines() if l.split(' ', 1)[1].startswith('verif:')]
    except Exception:
        return []

m = {
 "version": 1,
 "setup_cmd": "cd /verif/gocv && GOFLAGS=-mod=mod GOPROXY=off GOSUMDB=off GOTOOLCHAIN=local go build -o gocv .",
 "hooks": {
  "guard": "verif",
  "enable": "none needed: the hooks are comment-only contract files lib/**/zz_contracts_verif.go behind //go:build verif; gocv parses them directly from /repo's working tree",
  "baseline_off_cmd": "cd /repo/lib && GOFLAGS=-mod=mod GOPROXY=off GOSUMDB=off GOTOOLCHAIN=local go test -vet=off -count=1 ./...",
  "source_commits": source_commits(),
  "add_only": True,
 },
 "engines": [{"name": "gocv", "path": "/verif/gocv", "serves_properties": sorted(CLAIMS),
   "kind_free_text": "contract-based deductive verifier for Go written for this task: weakest-precondition style symbolic execution of go/ssa (naive form) of the functions under contract, loops cut by invariants, calls by contract, obligations discharged by z3/cvc5"}],
 "checks": [],
 "not_applicable": [],
 "notes": "All checks use one technique: function contracts (requires/ensures/panics_iff/assigns/loop invariants/lemmas) kept as structured comments in /repo (build tag verif) and discharged per function by gocv. See DESIGN.md; known-findings.txt lists recorded and fixed defects.",
}
for pid in ids:
    if pid in CLAIMS:
        text, note, design = CLAIMS[pid]
        m["checks"].append({
          "property_id": pid,
          "quick_cmd": "./check %s" % pid,
          "thorough_cmd": "./check %s --thorough" % pid,
          "evidence_file": "/verif/evidence/%s.json" % pid,
          "replay_cmd_template": "./check %s --replay {path}" % pid,
          "engine": "gocv",
          "level_claimed": {"category": "proof", "text": text, "design_ref": design},
          "level_note": COMMON_NOTE + note,
          "technique": "contract-based deductive verification: per-function contracts on the real code, VCs generated from go/ssa, discharged by z3/cvc5",
        })
    else:
        m["not_applicable"].append({"property_id": pid, "reason": NA.get(pid, "contracts for this property are not written yet (build in progress); it is not claimed rather than checked with another technique")})
json.dump(m, open(os.path.join(ROOT, 'MANIFEST.json'), 'w'), indent=1)
print("claimed:", sorted(CLAIMS), "not applicable:", len(m["not_applicable"]))
