#!/usr/bin/env python3
"""tagaudit.py [--apply]: contracts on functions that live in a file a property is anchored in should carry that property's tag
(the check of a property runs exactly the contracts tagged with it).  Lists the missing tags; --apply adds them."""
import json,re,glob,os,sys
props=[json.loads(l) for l in open('/verif/properties.jsonl')]
claimed=set(c['property_id'] for c in json.load(open('/verif/MANIFEST.json'))['checks'])
anch={}
for p in props:
    for f in p['anchors']['files']:
        anch.setdefault(f,set()).add(p['id'])
apply='--apply' in sys.argv
total=0
if '--cone' in sys.argv:
    # tags follow static calls: what a function tagged P calls (directly, through closures, or through functions without a
    # contract) is part of P's cone.  Edges come from "gocv calls"; interface dispatch is followed too (see below).
    import subprocess,collections
    edges=collections.defaultdict(set); dyn=collections.defaultdict(set)
    # interface dispatch (third column "dyn" of gocv calls: every library implementation of the invoked method): tags follow it
    # too; from the request pipeline, which carries every property, only the properties about the response as a whole do
    PIPELINE={'model.(*DecisionMaker).MakeDecision','model.(*DecisionMaker).prepareParams','model.(*DecisionMaker).processBiases'}
    WHOLE={'C01','C20'}
    for l in subprocess.run(['/verif/gocv/gocv','calls'],capture_output=True,text=True).stdout.split('\n'):
        if '\t' in l:
            parts=l.split('\t'); a,b=parts[0],parts[1]
            if len(parts)>2 and parts[2]=='dyn': dyn[a].add(b)
            else: edges[a].add(b)
    def key(cf,name):
        d=os.path.dirname(cf)[len('/repo/lib/'):]
        return d+'.'+name
    tags=collections.defaultdict(set); where={}
    files={}
    for cf in sorted(glob.glob('/repo/lib/**/zz_contracts_verif.go',recursive=True)):
        lines=open(cf).read().split('\n'); files[cf]=lines
        for i,l in enumerate(lines):
            m=re.match(r'//@ func (.+)$',l)
            pj=None
            if m:
                for j in range(i+1,min(i+8,len(lines))):
                    if lines[j].startswith('//@ func ') or not lines[j].startswith('//@'): break
                    if lines[j].startswith('//@   property'): pj=j; break
            if m and pj is not None:
                k=key(cf,m.group(1).strip()); where[k]=(cf,pj); tags[k]=set(lines[pj].split()[2:])
    work=list(tags)
    while work:
        f=work.pop()
        for g in edges.get(f,()):
            add=(tags[f]&claimed)-tags[g]
            if add:
                tags[g]|=add; work.append(g)
        for g in dyn.get(f,()):
            add=((tags[f]&claimed)&(WHOLE if f in PIPELINE else claimed))-tags[g]
            if add:
                tags[g]|=add; work.append(g)
    for k,(cf,i) in sorted(where.items()):
        have=set(files[cf][i].split()[2:])
        miss=sorted(tags[k]-have)
        if miss:
            total+=len(miss); print(k,'+',' '.join(miss))
            if apply: files[cf][i]=files[cf][i].rstrip()+' '+' '.join(miss)
    if apply:
        for cf,lines in files.items(): open(cf,'w').write('\n'.join(lines))
    print('missing cone tags:',total); sys.exit(0)
for cf in sorted(glob.glob('/repo/lib/**/zz_contracts_verif.go',recursive=True)):
    d=os.path.dirname(cf)
    srcs={f:open(f).read() for f in glob.glob(d+'/*.go') if not f.endswith('_test.go') and not f.endswith('zz_contracts_verif.go')}
    lines=open(cf).read().split('\n')
    out=[];i=0;changed=False
    while i<len(lines):
        l=lines[i]; out.append(l)
        m=re.match(r'//@ func (.+)$',l)
        pj=None
        if m:
            for j in range(i+1,min(i+8,len(lines))):
                if lines[j].startswith('//@ func ') or not lines[j].startswith('//@'): break
                if lines[j].startswith('//@   property'): pj=j; break
        if m and pj is not None:
            name=m.group(1).strip()
            base=name.split('$')[0]
            mm=re.match(r'\(\*?(\w+)\)\.(\w+)',base)
            if base.startswith('var:'):
                pat=re.compile(r'\b'+re.escape(base[4:].split('#')[0])+r'\b')
            elif mm:
                pat=re.compile(r'func \(\w+ \*?'+mm.group(1)+r'\) '+mm.group(2)+r'\(')
            else:
                pat=re.compile(r'func '+re.escape(base)+r'\(')
            files=[f for f,t in srcs.items() if pat.search(t)]
            want=set()
            for f in files:
                rel=f[len('/repo/'):]
                want|=anch.get(rel,set())
            want&=claimed
            have=set(lines[pj].split()[2:])
            miss=sorted(want-have)
            if miss:
                total+=len(miss)
                print(cf[len('/repo/lib/'):].rsplit('/',1)[0], name, '+', ' '.join(miss))
                if apply:
                    lines[pj]=lines[pj].rstrip()+' '+' '.join(miss); changed=True
        i+=1
    if apply and changed:
        open(cf,'w').write('\n'.join(lines))
print('missing tags:',total)
