package model

import "testing"

// F4: Criteria.SortByWeights sizes its result by the number of weights, not of criteria.
func TestFindingF4SortByWeightsSizedByWeights(t *testing.T) {
	criteria := Criteria{{Id: "a", Type: Gain}, {Id: "b", Type: Gain}}
	ranked := criteria.SortByWeights(Weights{"a": 1, "b": 2, "zz": 3})
	if len(*ranked) != len(criteria) {
		t.Errorf("ranking of %d criteria has %d entries: %v", len(criteria), len(*ranked), *ranked)
	}
	for _, r := range *ranked {
		if r.Id == "" {
			t.Errorf("ranking contains a criterion with empty id: %v", *ranked)
		}
	}
}
