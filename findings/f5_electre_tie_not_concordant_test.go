package electreIII

import (
	"testing"

	"github.com/Azbesciak/RealDecisionMaker/lib/model"
	"github.com/Azbesciak/RealDecisionMaker/lib/utils"
)

// F5: an alternative that is NOT WORSE on a criterion must be fully concordant on it (C=1, D=0); with equal values and only
// a veto threshold declared the code falls through its strict '>' test and reports C=0 (the code carries a TODO about diff == 0).
func TestFindingF5EqualValuesAreNotConcordant(t *testing.T) {
	criterion := model.Criterion{Id: "c", Type: model.Gain}
	thresholds := ElectreCriterion{K: 1, V: utils.LinearFunctionParameters{B: 5}}
	res := calculateElectreResult(3, 3, &criterion, &thresholds)
	if res.C != 1 || res.D != 0 {
		t.Errorf("equal values: expected concordance 1 and discordance 0, got C=%v D=%v", res.C, res.D)
	}
}
