// F7 end to end (place in lib/client): choquetIntegral with criteriaConcealment must be answered with a ranking.
package client

import (
	"testing"

	criteria_concealment "github.com/Azbesciak/RealDecisionMaker/lib/logic/biases/criteria-concealment"
	"github.com/Azbesciak/RealDecisionMaker/lib/logic/preference-func/choquet"
	. "github.com/Azbesciak/RealDecisionMaker/lib/model"
	reference_criterion "github.com/Azbesciak/RealDecisionMaker/lib/model/reference-criterion"
	"github.com/Azbesciak/RealDecisionMaker/lib/utils"
)

func TestFindingF7ChoquetWithConcealmentIsAnswered(t *testing.T) {
	dm := DecisionMaker{
		PreferenceFunction: "choquetIntegral",
		KnownAlternatives: []AlternativeWithCriteria{
			{"a", Weights{"1": 1, "2": 2}},
			{"b", Weights{"1": 2, "2": 1}},
		},
		ChoseToMake:      []Alternative{"a", "b"},
		Criteria:         Criteria{{Id: "1", Type: "gain"}, {Id: "2", Type: "gain"}},
		MethodParameters: utils.Map{"weights": Weights{"1": 0.3, "2": 0.4, "1,2": 1}},
		Biases:           BiasesParams{utils.Map{"name": "criteriaConcealment", "props": utils.Map{"randomSeed": 3}}},
	}
	ch := &choquet.ChoquetIntegralPreferenceFunc{}
	funcs := PreferenceFunctions{Functions: []PreferenceFunction{ch}}
	lst := BiasListeners{Listeners: []BiasListener{&choquet.ChoquetIntegralBiasListener{}}}
	mgr := reference_criterion.NewReferenceCriteriaManager([]reference_criterion.ReferenceCriterionFactory{&reference_criterion.ImportanceRatioReferenceCriterionManager{}})
	conc := criteria_concealment.NewCriteriaConcealment(utils.RandomBasedSeedValueGenerator, *mgr)
	bm := AsBiasesMap(&Biases{conc})
	defer func() {
		if e := recover(); e != nil {
			t.Errorf("choquetIntegral + criteriaConcealment is answered with an error: %v", e)
		}
	}()
	res := dm.MakeDecision(funcs, lst, bm, utils.RandomBasedSeedValueGenerator)
	if len(res.Result) != 2 {
		t.Errorf("ranking: %v", res.Result)
	}
}
