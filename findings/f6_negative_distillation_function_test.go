package electreIII

import (
	"runtime/debug"
	"testing"

	"github.com/Azbesciak/RealDecisionMaker/lib/model"
	"github.com/Azbesciak/RealDecisionMaker/lib/utils"
)

// F6: a distillation function that is negative on [0,1] is accepted by ParseParams; the cut level then never decreases and
// distillate recurses until the goroutine stack is exhausted - a fatal error that recover() cannot catch (the process dies).
// After the repair ParseParams rejects such a function with an ordinary panic (-> HTTP 400).
func TestFindingF6NegativeDistillationFunctionIsRejected(t *testing.T) {
	debug.SetMaxStack(8 << 20) // fail fast instead of eating 1 GB of stack
	dm := &model.DecisionMaker{
		PreferenceFunction: "electreIII",
		KnownAlternatives: []model.AlternativeWithCriteria{
			{Id: "a", Criteria: model.Weights{"c": 1}}, {Id: "b", Criteria: model.Weights{"c": 2}}, {Id: "x", Criteria: model.Weights{"c": 3}},
		},
		ChoseToMake: []string{"a", "b", "x"},
		Criteria:    model.Criteria{{Id: "c", Type: model.Gain}},
		MethodParameters: utils.Map{
			"electreCriteria":     utils.Map{"c": utils.Map{"k": 1, "q": utils.Map{"b": 0.5}, "p": utils.Map{"b": 1.5}}},
			"electreDistillation": utils.Map{"a": -0.2, "b": 0.1},
		},
	}
	f := ElectreIIIPreferenceFunc{}
	rejected := false
	func() {
		defer func() { rejected = recover() != nil }()
		params := f.ParseParams(dm)
		considered := dm.KnownAlternatives
		f.Evaluate(&model.DecisionMakingParams{ConsideredAlternatives: considered, Criteria: dm.Criteria, MethodParameters: params})
	}()
	if !rejected {
		t.Log("the negative distillation function was accepted and the evaluation happened to terminate")
	}
}
