package choquet

import (
	"testing"

	"github.com/Azbesciak/RealDecisionMaker/lib/model"
)

// F7: what ChoquetIntegralBiasListener.OnCriterionAdded returns repeats every capacity (and criterion) the parameters already
// hold; Merge joins the addition with the parameters and panics on the first repeated key.  Every bias that adds a criterion
// (concealment, mixing, anchoring/newCriterion) therefore fails with choquetIntegral.
func TestFindingF7ChoquetAddedCriterionIsNotMergeable(t *testing.T) {
	listener := ChoquetIntegralBiasListener{}
	criteria := model.Criteria{{Id: "1", Type: model.Gain}, {Id: "2", Type: model.Gain}}
	params := choquetParams{weights: &model.Weights{"1": 0.3, "2": 0.4, "1,2": 1}, criteria: &criteria}
	newCriterion := model.Criterion{Id: "3", Type: model.Gain}
	addition := listener.OnCriterionAdded(&newCriterion, &criteria[0], params, func() float64 { return 0.5 })
	defer func() {
		if e := recover(); e != nil {
			t.Errorf("Merge rejects the addition produced by OnCriterionAdded: %v", e)
		}
	}()
	merged := listener.Merge(params, addition).(choquetParams)
	if len(*merged.weights) != 7 {
		t.Errorf("expected the 7 capacities of three criteria after merging, got %v", *merged.weights)
	}
	if len(*merged.criteria) != 3 {
		t.Errorf("expected three criteria after merging, got %v", *merged.criteria)
	}
	for _, k := range []string{"1", "2", "1,2"} {
		if (*merged.weights)[k] != (*params.weights)[k] {
			t.Errorf("capacity of %s changed: %v", k, (*merged.weights)[k])
		}
	}
	if (*merged.weights)["3"] != 0.5 || (*merged.weights)["1,3"] != 0.3 || (*merged.weights)["2,3"] != 0.4 || (*merged.weights)["1,2,3"] != 1 {
		t.Errorf("new capacities: %v", *merged.weights)
	}
}
