package owa

import (
	"testing"

	"github.com/Azbesciak/RealDecisionMaker/lib/model"
)

// F9: what OwaBiasListener.OnCriterionAdded returns (model.WeightType) is not what OwaBiasListener.Merge accepts
// (owaParams): every bias that adds a criterion (concealment, mixing, anchoring/newCriterion) panics with OWA.
func TestFindingF9OwaAddedCriterionIsNotMergeable(t *testing.T) {
	listener := OwaBiasListener{}
	params := owaParams{Weights: &model.WeightedCriteria{
		{Criterion: model.Criterion{Id: "1", Type: model.Gain}, Weight: 1},
		{Criterion: model.Criterion{Id: "2", Type: model.Gain}, Weight: 2},
	}}
	newCriterion := model.Criterion{Id: "3", Type: model.Gain}
	addition := listener.OnCriterionAdded(&newCriterion, &(*params.Weights)[0].Criterion, params, func() float64 { return 0.5 })
	defer func() {
		if e := recover(); e != nil {
			t.Errorf("Merge rejects the addition produced by OnCriterionAdded: %v", e)
		}
	}()
	merged := listener.Merge(params, addition).(owaParams)
	if len(*merged.Weights) != 3 {
		t.Errorf("expected 3 weights after merging, got %v", *merged.Weights)
	}
}
