package weighted_sum

import (
	"testing"

	"github.com/Azbesciak/RealDecisionMaker/lib/model"
)

// K1 (known finding, not repaired: TestValidFunc pins the unweighted value): WeightedSum adds the signed criterion values
// and never multiplies them by the criterion weights.
func TestFindingK1WeightedSumIgnoresWeights(t *testing.T) {
	alt := model.AlternativeWithCriteria{Id: "x", Criteria: model.Weights{"Cost": 200, "Color": 10}}
	criteria := model.WeightedCriteria{
		{Criterion: model.Criterion{Id: "Cost", Type: model.Cost}, Weight: 1},
		{Criterion: model.Criterion{Id: "Color", Type: model.Gain}, Weight: 2},
	}
	got := WeightedSum(alt, criteria).Value()
	want := 1*(-200.0) + 2*10.0
	if got != want {
		t.Errorf("weighted sum is %v, the defining formula gives %v (weights 1 and 2 were ignored: -200+10 = -190)", got, want)
	}
}
