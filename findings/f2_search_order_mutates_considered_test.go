package limited_rationality

import (
	"testing"

	"github.com/Azbesciak/RealDecisionMaker/lib/model"
)

type f2Params struct{ choice string }

func (p *f2Params) GetCurrentChoice() string           { return p.choice }
func (p *f2Params) GetRandomSeed() int64               { return 0 }
func (p *f2Params) IsRandomAlternativesOrdering() bool { return false }

// F2: GetAlternativesSearchOrder removes the current choice IN PLACE from the considered alternatives of the parameters
// it was given (the slice every later reader - bias reports, fallback thresholds - still uses).
func TestFindingF2SearchOrderMutatesConsidered(t *testing.T) {
	dm := &model.DecisionMakingParams{ConsideredAlternatives: []model.AlternativeWithCriteria{{Id: "a"}, {Id: "b"}, {Id: "c"}}}
	GetAlternativesSearchOrder(dm, &f2Params{choice: "a"}, func() float64 { return 0 })
	got := []string{dm.ConsideredAlternatives[0].Id, dm.ConsideredAlternatives[1].Id, dm.ConsideredAlternatives[2].Id}
	if got[0] != "a" || got[1] != "b" || got[2] != "c" {
		t.Errorf("considered alternatives of the parameters were [a b c] and are %v after computing the search order", got)
	}
}
