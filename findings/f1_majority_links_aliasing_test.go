package majority

import (
	"testing"

	"github.com/Azbesciak/RealDecisionMaker/lib/model"
)

// F1: prepareRanking builds the links of the entries of one tie group by appending to the SAME base slice (the id list of the
// previous group); when that list has spare capacity the entries of the group share one backing array and overwrite each other.
func TestFindingF1MajorityTieGroupLinksOverwritten(t *testing.T) {
	mk := func(id string) model.AlternativeResult {
		return model.AlternativeResult{Alternative: model.AlternativeWithCriteria{Id: id}}
	}
	// drop-out order: first the tie group {a,b,c}, then the tie group {d,e} (the undefeated ones)
	ranking := *prepareRanking([][]model.AlternativeResult{{mk("a"), mk("b"), mk("c")}, {mk("d"), mk("e")}})
	for _, entry := range ranking {
		for _, id := range entry.BetterThanOrSameAs {
			if id == entry.Alternative.Id {
				t.Errorf("entry %s lists itself in betterThanOrSameAs %v", entry.Alternative.Id, entry.BetterThanOrSameAs)
			}
		}
		if entry.Alternative.Id == "e" {
			found := false
			for _, id := range entry.BetterThanOrSameAs {
				found = found || id == "d"
			}
			if !found {
				t.Errorf("entry e does not list its tie-group partner d: %v", entry.BetterThanOrSameAs)
			}
		}
	}
}
