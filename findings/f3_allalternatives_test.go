package model

import "testing"

// F3: DecisionMakingParams.AllAlternatives returns (or appends into) the considered slice itself.
func TestFindingF3AllAlternativesAliasing(t *testing.T) {
	backing := make([]AlternativeWithCriteria, 1, 2)
	backing[0] = AlternativeWithCriteria{Id: "a"}
	spare := backing[:2]
	spare[1] = AlternativeWithCriteria{Id: "SENTINEL"}
	p := DecisionMakingParams{ConsideredAlternatives: backing, NotConsideredAlternatives: []AlternativeWithCriteria{{Id: "b"}}}
	_ = p.AllAlternatives()
	if spare[1].Id != "SENTINEL" {
		t.Errorf("AllAlternatives wrote %q into the spare capacity of the caller's considered slice", spare[1].Id)
	}
	p2 := DecisionMakingParams{ConsideredAlternatives: []AlternativeWithCriteria{{Id: "a"}}}
	all := p2.AllAlternatives()
	all[0].Id = "X"
	if p2.ConsideredAlternatives[0].Id == "X" {
		t.Errorf("AllAlternatives returned the considered slice itself: a write to the result changed the parameters")
	}
}
