package criteria_mixing

import (
	"testing"

	"github.com/Azbesciak/RealDecisionMaker/lib/model"
	reference_criterion "github.com/Azbesciak/RealDecisionMaker/lib/model/reference-criterion"
	"github.com/Azbesciak/RealDecisionMaker/lib/testUtils"
	"github.com/Azbesciak/RealDecisionMaker/lib/utils"
)

// F8: criteria mixing rebuilds the alternatives from the ORIGINAL state, so value changes made by an earlier bias are
// lost (and a criterion omitted earlier comes back in the alternatives while the criteria list no longer has it).
func TestFindingF8MixingDiscardsEarlierBiasChanges(t *testing.T) {
	mixing := CriteriaMixing{
		generatorSource: testUtils.CyclicRandomGenerator(0, 10),
		referenceCriteriaManager: *reference_criterion.NewReferenceCriteriaManager(
			[]reference_criterion.ReferenceCriterionFactory{&reference_criterion.ImportanceRatioReferenceCriterionManager{}},
		),
	}
	criteria := testUtils.GenerateCriteria(3)
	listener := model.BiasListener(&testUtils.DummyBiasListener{})
	m := model.BiasProps(utils.Map{"mixingRatio": 0.25, "randomSeed": 0})
	original := &model.DecisionMakingParams{
		ConsideredAlternatives:    []model.AlternativeWithCriteria{{Id: "a", Criteria: model.Weights{"1": 0, "2": 3, "3": 1}}, {Id: "b", Criteria: model.Weights{"1": 0, "2": 5, "3": 0}}},
		NotConsideredAlternatives: []model.AlternativeWithCriteria{{Id: "x", Criteria: model.Weights{"1": 1, "2": 2, "3": 3}}},
		Criteria:                  criteria,
		MethodParameters:          testUtils.DummyMethodParameters{Criteria: []string{"1", "2", "3"}},
	}
	// the state after an earlier bias (e.g. fatigue) changed a's value on criterion 3 from 1 to 1.5
	current := &model.DecisionMakingParams{
		ConsideredAlternatives:    []model.AlternativeWithCriteria{{Id: "a", Criteria: model.Weights{"1": 0, "2": 3, "3": 1.5}}, {Id: "b", Criteria: model.Weights{"1": 0, "2": 5, "3": 0}}},
		NotConsideredAlternatives: original.NotConsideredAlternatives,
		Criteria:                  criteria,
		MethodParameters:          original.MethodParameters,
	}
	result := mixing.Apply(original, current, &m, &listener)
	got := result.DMP.ConsideredAlternatives[0].Criteria["3"]
	if got != 1.5 {
		t.Errorf("value of alternative a on criterion 3 was 1.5 before mixing and is %v after it: the earlier bias's change was discarded", got)
	}
}
